"""Deterministic virtual-time event loop.

All of asyncio's own scheduling code (Task, wait, shield, call_later, timeouts) runs unmodified; only
the selector is replaced (no I/O) and time is virtual: it advances when nothing is ready, and by 1 us
on every read (a real monotonic clock never returns the same reading twice across an iteration; the
library has loops that spin on a clock that stands still).  time.monotonic is patched to the same
clock while a run is active.
"""
import asyncio
import selectors
import time as _time


class Deadlock(RuntimeError):
    pass


class _NullSelector(selectors.BaseSelector):
    def __init__(self, loop):
        self._loop = loop
        self._map = {}

    def register(self, fileobj, events, data=None):
        k = selectors.SelectorKey(fileobj, 0, events, data)
        self._map[fileobj] = k
        return k

    def unregister(self, fileobj):
        return self._map.pop(fileobj, None)

    def modify(self, fileobj, events, data=None):
        return self.register(fileobj, events, data)

    def select(self, timeout=None):
        if timeout is None:
            raise Deadlock("deadlock: nothing ready and nothing scheduled")
        if timeout > 0:
            self._loop._vtime += timeout
        return []

    def get_map(self):
        return self._map

    def close(self):
        pass


class VLoop(asyncio.BaseEventLoop):
    def __init__(self, max_vtime=3600.0):
        super().__init__()
        self._vtime = 0.0
        self._max_vtime = max_vtime
        self._selector = _NullSelector(self)
        self.clock_reads = 0
        # strong references to every task ever created on this loop: a leaked task that nothing else
        # references must stay observable (asyncio.all_tasks only holds weak references, so whether such
        # a task is still listed would depend on the garbage collector)
        self.created_tasks = []

        def factory(loop, coro, **kw):
            t = asyncio.Task(coro, loop=loop, **kw)
            loop.created_tasks.append(t)
            return t
        self.set_task_factory(factory)

    def time(self):
        self._vtime += 1e-6
        self.clock_reads += 1
        if self._vtime > self._max_vtime:
            raise Deadlock(f"virtual time exceeded {self._max_vtime}s")
        return self._vtime

    def vnow(self):
        return self._vtime

    def _process_events(self, event_list):
        pass

    def _write_to_self(self):
        pass

    # executor calls (e.g. SCRAM steps) run inline: deterministic
    def run_in_executor(self, executor, func, *args):
        fut = self.create_future()
        try:
            fut.set_result(func(*args))
        except Exception as e:  # noqa: BLE001
            fut.set_exception(e)
        return fut

    def live_timers(self):
        return [h for h in self._scheduled if not h.cancelled()]


def run(main, max_vtime=3600.0):
    """Run coroutine function main(loop) to completion on a fresh virtual loop."""
    loop = VLoop(max_vtime)
    saved = (_time.monotonic, _time.time)
    _time.monotonic = loop.time
    _time.time = lambda: 1_600_000_000.0 + loop.time()
    asyncio.set_event_loop(loop)
    # the v2 record builder binds time.time as a default argument at import time
    _defaults = None
    try:
        from aiokafka.record.default_records import _DefaultRecordBatchBuilderPy as _B
        _defaults = _B.append.__defaults__
        _B.append.__defaults__ = tuple((_time.time if d is saved[1] else d) for d in _defaults)
    except Exception:  # noqa: BLE001
        _B = None
    try:
        return loop.run_until_complete(main(loop))
    finally:
        _time.monotonic, _time.time = saved
        if _B is not None and _defaults is not None:
            _B.append.__defaults__ = _defaults
        try:
            # cancel whatever the harness left behind so that nothing leaks into the next path
            for t in asyncio.all_tasks(loop):
                t.cancel()
            loop.run_until_complete(asyncio.sleep(0))
        except BaseException:  # noqa: BLE001
            pass
        asyncio.set_event_loop(None)
        loop.close()


async def settle(n=20):
    """let ready callbacks run without advancing virtual time (beyond clock-read ticks)"""
    for _ in range(n):
        await asyncio.sleep(0)


def library_tasks(loop):
    """live tasks created by the code under test (tasks of the harness/simulator are excluded)"""
    out = []
    cur = asyncio.current_task(loop)
    for t in list(getattr(loop, "created_tasks", None) or asyncio.all_tasks(loop)):
        if t is cur or t.done():
            continue
        co = t.get_coro()
        code = getattr(co, "cr_code", None) or getattr(co, "gi_code", None)
        fn = code.co_filename if code is not None else ""
        if "/verif/" in fn:
            continue
        out.append(t)
    return out
