"""Request-level model of a Kafka cluster (trusted base of the S-harnesses; DESIGN §3.4 / Appendix C).

`install(cluster)` replaces aiokafka.client.create_conn by a factory of SimConn objects whose
send() does what the real connection does first -- request.prepare(versions) -- and then hands the
request struct to the model, which answers with req.RESPONSE_TYPE(...).  Everything above that line
(client, metadata refresh, sender, accumulator, fetcher, coordinator) is the library's code.
"""
import asyncio
import collections

import aiokafka.client as CLIENT
import aiokafka.errors as E
from aiokafka.record.memory_records import MemoryRecords
from aiokafka.record.default_records import DefaultRecordBatchBuilder
from aiokafka.record.legacy_records import LegacyRecordBatchBuilder

NAMES = {0: "Produce", 1: "Fetch", 2: "ListOffsets", 3: "Metadata", 8: "OffsetCommit", 9: "OffsetFetch",
         10: "FindCoordinator", 11: "JoinGroup", 12: "Heartbeat", 13: "LeaveGroup", 14: "SyncGroup",
         18: "ApiVersions", 22: "InitProducerId", 24: "AddPartitionsToTxn", 25: "AddOffsetsToTxn",
         26: "EndTxn", 28: "TxnOffsetCommit"}

DEFAULT_VERSIONS = {0: (0, 7), 1: (0, 4), 2: (0, 2), 3: (0, 1), 8: (2, 2), 9: (1, 1), 10: (0, 1),
                    11: (0, 2), 12: (0, 1), 13: (0, 1), 14: (0, 1), 22: (0, 0), 24: (0, 0), 25: (0, 0),
                    26: (0, 0), 28: (0, 0)}

MAXSEQ = 2 ** 31 - 1


def next_seq(s, n):
    return (s + n) % (2 ** 31)


class Batch:
    __slots__ = ("base", "last", "count", "pid", "epoch", "seq", "transactional", "control", "marker",
                 "records", "ts_type", "max_ts", "magic", "raw", "append_time", "fixed")

    def __init__(self, **kw):
        for k in self.__slots__:
            setattr(self, k, kw.get(k))

    def offsets(self):
        return [r[0] for r in self.records]


class PartitionLog:
    def __init__(self, cluster, topic, partition, log_append_time=False):
        self.cluster = cluster
        self.tp = (topic, partition)
        self.batches = []
        self.log_start = 0
        self.next_offset = 0
        self.log_append_time = log_append_time
        # idempotent producer state: pid -> dict(epoch, last=[(seq, count, base_offset, ts)])
        self.producers = {}
        self.open_txn = {}  # pid -> first offset of the ongoing transaction
        self.aborted = []  # (pid, first_offset, marker_offset)

    @property
    def high_watermark(self):
        return self.next_offset

    @property
    def last_stable_offset(self):
        if self.open_txn:
            return min(self.open_txn.values())
        return self.next_offset

    # ---- append path
    def validate_and_append(self, raw, now_ms, base_offset_hint=None):
        """Returns (error_code, base_offset, timestamp).  Sequence rule: DESIGN Appendix B1."""
        recs = MemoryRecords(bytes(raw))
        out = None
        nb = 0
        while recs.has_next():
            b = recs.next_batch()
            nb += 1
            magic = b.magic
            records = list(b)
            count = len(records)
            if magic >= 2:
                pid, epoch, seq = b.producer_id, b.producer_epoch, b.base_sequence
                transactional, control = b.is_transactional, b.is_control_batch
            else:
                pid, epoch, seq, transactional, control = -1, -1, -1, False, False
            if count == 0:
                return 87, -1, -1  # INVALID_RECORD
            if pid >= 0:
                self.cluster.seq_presented.append((self.tp, pid, epoch, seq, count))
                if not (0 <= seq <= MAXSEQ):
                    self.cluster.problems.append(f"sequence {seq} outside 0..2^31-1 presented for {self.tp}")
                    return 45, -1, -1
                st = self.producers.get(pid)
                if st is not None and epoch < st["epoch"]:
                    return 47, -1, -1  # INVALID_PRODUCER_EPOCH
                if st is None or epoch > st["epoch"]:
                    if seq != 0 and st is not None:
                        return 45, -1, -1
                    if st is None and seq != 0 and not self.cluster.allow_unknown_producer_seq:
                        self.cluster.seq_errors.append((self.tp, pid, seq, 0))
                        return 45, -1, -1
                    st = {"epoch": epoch, "last": collections.deque(maxlen=5)}
                    self.producers[pid] = st
                else:
                    for (s, c, off, ts) in st["last"]:
                        if s == seq and c == count:
                            # replay of a retained batch: success with the original offset
                            self.cluster.duplicates_absorbed += 1
                            if getattr(self.cluster, "duplicates_answered_with_46", False):
                                # the protocol's other documented answer to a replayed batch (a broker that no
                                # longer holds the batch's metadata): DUPLICATE_SEQUENCE_NUMBER, no offset
                                return 46, -1, -1
                            return 0, off, ts
                    if st["last"]:
                        ls, lc = st["last"][-1][0], st["last"][-1][1]
                        expect = next_seq(ls, lc)
                        if seq != expect:
                            older = any(True for (s, c, o, t) in st["last"])
                            self.cluster.seq_errors.append((self.tp, pid, seq, expect))
                            return 45, -1, -1  # OUT_OF_ORDER_SEQUENCE_NUMBER
            if transactional and not control:
                self.cluster.observe_txn_produce(self.tp, pid, epoch)
            base = self.next_offset
            ts_type = 1 if self.log_append_time else 0
            append_ts = now_ms if self.log_append_time else -1
            stored = []
            for i, r in enumerate(records):
                rts = now_ms if self.log_append_time else r.timestamp
                stored.append((base + i, r.key, r.value, tuple(r.headers) if magic >= 2 else (), rts))
            bt = Batch(base=base, last=base + count - 1, count=count, pid=pid, epoch=epoch, seq=seq,
                       transactional=transactional, control=control, marker=None, records=stored,
                       ts_type=ts_type, magic=magic, raw=bytes(raw), append_time=append_ts)
            self.batches.append(bt)
            self.next_offset = base + count
            if pid >= 0:
                self.producers[pid]["last"].append((seq, count, base, append_ts))
            if transactional and pid not in self.open_txn:
                self.open_txn[pid] = base
            if out is None:
                out = (0, base, append_ts)
        if out is None:
            return 87, -1, -1
        return out

    def write_marker(self, pid, epoch, commit):
        base = self.next_offset
        bt = Batch(base=base, last=base, count=1, pid=pid, epoch=epoch, seq=-1, transactional=True,
                   control=True, marker="commit" if commit else "abort", records=[], ts_type=0, magic=2,
                   raw=None, append_time=-1)
        self.batches.append(bt)
        self.next_offset = base + 1
        first = self.open_txn.pop(pid, None)
        if not commit and first is not None:
            self.aborted.append((pid, first, base))
        st = self.producers.get(pid)
        if st is None or epoch > st["epoch"]:
            self.producers[pid] = {"epoch": epoch, "last": collections.deque(maxlen=5)}

    # ---- read path (reference reader, Appendix B2)
    def outcome(self, batch):
        if not batch.transactional or batch.control:
            return "plain"
        for b in self.batches:
            if b.control and b.pid == batch.pid and b.base > batch.base:
                return b.marker
        return "open"

    def visible_records(self, isolation, from_offset=0):
        out = []
        bound = self.last_stable_offset if isolation == 1 else self.high_watermark
        for b in self.batches:
            if b.control:
                continue
            if isolation == 1 and b.transactional and self.outcome(b) != "commit":
                continue
            for r in b.records:
                if from_offset <= r[0] < bound and r[0] >= self.log_start:
                    out.append(r)
        return out

    def prefill(self, raw, base, last, records, *, control=False, marker=None, transactional=False, pid=-1,
                epoch=0, magic=2):
        """store an already encoded batch (built by the reference codec) as it is"""
        bt = Batch(base=base, last=last, count=len(records), pid=pid, epoch=epoch, seq=-1,
                   transactional=transactional, control=control, marker=marker,
                   records=[] if control else list(records), ts_type=0, magic=magic, raw=bytes(raw),
                   append_time=-1, fixed=True)
        self.batches.append(bt)
        self.next_offset = last + 1
        if transactional and not control and pid not in self.open_txn:
            self.open_txn[pid] = base
        if control:
            first = self.open_txn.pop(pid, None)
            if marker == "abort":
                self.aborted.append((pid, first if first is not None else base, base))
        return bt

    def encode_batch(self, b):
        """bytes of a stored batch with its assigned base offset (v2 only is re-encoded; legacy kept)"""
        if b.fixed:
            return b.raw
        if b.control:
            bld = DefaultRecordBatchBuilder(2, 0, is_transactional=1, producer_id=b.pid, producer_epoch=b.epoch,
                                            base_sequence=-1, batch_size=1 << 20)
            key = b"\x00\x00\x00" + (b"\x01" if b.marker == "commit" else b"\x00")
            bld.append(0, 1, key=key, value=b"\x00\x00\x00\x00\x00\x00", headers=[])
            raw = bytearray(bld.build())
            # control bit (0x20) in attributes (offset 21..22), then recompute crc
            import struct
            attrs = struct.unpack_from(">h", raw, 21)[0] | 0x20
            struct.pack_into(">h", raw, 21, attrs)
            struct.pack_into(">q", raw, 0, b.base)
            from aiokafka.record.util import calc_crc32c
            struct.pack_into(">I", raw, 17, calc_crc32c(bytes(raw[21:])))
            return bytes(raw)
        raw = bytearray(b.raw)
        import struct
        if b.magic >= 2:
            struct.pack_into(">q", raw, 0, b.base)
            if self.log_append_time:
                attrs = struct.unpack_from(">h", raw, 21)[0] | 0x08
                struct.pack_into(">h", raw, 21, attrs)
                struct.pack_into(">q", raw, 35, b.append_time)  # max timestamp
                from aiokafka.record.util import calc_crc32c
                struct.pack_into(">I", raw, 17, calc_crc32c(bytes(raw[21:])))
            return bytes(raw)
        # legacy message set: rewrite offsets of an uncompressed set
        pos = 0
        i = 0
        while pos + 12 <= len(raw):
            struct.pack_into(">q", raw, pos, b.base + i)
            size = struct.unpack_from(">i", raw, pos + 8)[0]
            pos += 12 + size
            i += 1
        return bytes(raw)


class TxnState:
    def __init__(self, pid):
        self.pid = pid
        self.epoch = -1
        self.state = "Empty"
        self.partitions = set()
        self.groups = set()
        self.pending_markers = None


class Group:
    """Kafka 2.8 group coordinator tables (DESIGN Appendix C)."""

    def __init__(self, cluster, gid):
        self.cluster = cluster
        self.gid = gid
        self.state = "Empty"
        self.generation = 0
        self.members = {}  # member_id -> dict(protocols, session, rebalance, last_seen, join_fut, sync_fut, meta)
        self.pending_ids = set()
        self.leader = None
        self.protocol = None
        self.assignments = {}
        self.offsets = {}  # (topic, partition) -> (offset, metadata)
        self.pending_txn_offsets = {}  # (pid, epoch) -> {(t,p): (offset, meta)}
        self.history = []  # (generation, {member: assignment bytes})
        self.n = 0
        self.barrier_handle = None
        self.commits = []  # (time, member, generation, topic, partition, offset, accepted)

    def now(self):
        return self.cluster.now()

    def _new_id(self):
        self.n += 1
        return f"member-{self.gid}-{self.n}"

    def touch(self, mid):
        if mid in self.members:
            self.members[mid]["last_seen"] = self.now()
            self._arm(self.members[mid])

    def _arm(self, m):
        """session expiry is timer driven (a member blocked in SyncGroup sends nothing)"""
        asyncio.get_event_loop().call_later(m["session"] / 1000 + 0.002, self.check_sessions)

    def _prepare_rebalance(self):
        if self.state == "PreparingRebalance":
            return
        self.state = "PreparingRebalance"
        for m in self.members.values():
            if m.get("sync_fut") and not m["sync_fut"].done():
                m["sync_fut"].set_result((27, b""))
            m["sync_fut"] = None
        timeout = max([m["rebalance"] for m in self.members.values()] or [1000]) / 1000
        if self.barrier_handle:
            self.barrier_handle.cancel()
        self.barrier_handle = asyncio.get_event_loop().call_later(timeout, self._barrier_timeout)

    def _barrier_timeout(self):
        self.barrier_handle = None
        if self.state != "PreparingRebalance":
            return
        for mid in list(self.members):
            if self.members[mid].get("join_fut") is None:
                del self.members[mid]
        self._maybe_complete_join()

    def _maybe_complete_join(self):
        if self.state != "PreparingRebalance":
            return
        if not self.members:
            self.state = "Empty"
            self.generation += 1
            return
        if not all(m.get("join_fut") is not None for m in self.members.values()):
            return
        if self.barrier_handle:
            self.barrier_handle.cancel()
            self.barrier_handle = None
        self.generation += 1
        # protocol: supported by all, most first-preference votes
        common = None
        for m in self.members.values():
            names = [p[0] for p in m["protocols"]]
            common = set(names) if common is None else common & set(names)
        votes = collections.Counter()
        for m in self.members.values():
            for name, _ in m["protocols"]:
                if name in common:
                    votes[name] += 1
                    break
        self.protocol = sorted(votes, key=lambda k: (-votes[k], k))[0]
        if self.leader not in self.members:
            self.leader = sorted(self.members, key=lambda k: self.members[k]["joined_at"])[0]
        self.state = "CompletingRebalance"
        self.assignments = {}
        meta = [(mid, dict(m["protocols"])[self.protocol]) for mid, m in sorted(self.members.items())]
        self.cluster.group_events.append((self.now(), self.gid, "generation", self.generation, sorted(self.members)))
        for mid, m in self.members.items():
            f = m["join_fut"]
            m["join_fut"] = None
            m["last_seen"] = self.now()
            self._arm(m)
            if not f.done():
                f.set_result((0, self.generation, self.protocol, self.leader, mid, meta if mid == self.leader else []))

    def check_sessions(self):
        now = self.now()
        dropped = False
        for mid in list(self.members):
            m = self.members[mid]
            if m.get("join_fut") is not None:
                continue
            if m.get("sync_fut") is not None and not m["sync_fut"].done():
                continue  # blocked in SyncGroup: its request is in flight, the member is alive
            if now - m["last_seen"] > m["session"] / 1000:
                del self.members[mid]
                dropped = True
                self.cluster.group_events.append((now, self.gid, "session_expired", mid))
        if dropped:
            if self.members:
                self._prepare_rebalance()
                self._maybe_complete_join()
            else:
                self.state = "Empty"
                self.generation += 1

    # ---- requests
    async def join(self, req, version):
        self.check_sessions()
        mid = req.member_id
        protos = [(n, bytes(md)) for n, md in req.group_protocols]
        rebalance = getattr(req, "rebalance_timeout", None) or req.session_timeout
        R = lambda err, gen=-1, proto="", leader="", member="", members=():  (err, gen, proto, leader, member, list(members))  # noqa: E731
        if mid == "":
            if version >= 4 and self.cluster.member_id_required:
                new = self._new_id()
                self.pending_ids.add(new)
                return R(79, member=new)
            mid = self._new_id()
        elif mid not in self.members and mid not in self.pending_ids:
            return R(25)
        if self.members:
            common = set(n for n, _ in protos)
            for m in self.members.values():
                common &= set(n for n, _ in m["protocols"])
            if not common:
                return R(23)
        self.pending_ids.discard(mid)
        loop = asyncio.get_event_loop()
        known = mid in self.members
        if known:
            m = self.members[mid]
            changed = m["protocols"] != protos
            if self.state == "Stable" and not changed and mid != self.leader:
                m["last_seen"] = self.now()
                return R(0, self.generation, self.protocol, self.leader, mid, [])
            if self.state == "CompletingRebalance" and not changed:
                meta = [(k, dict(v["protocols"])[self.protocol]) for k, v in sorted(self.members.items())]
                return R(0, self.generation, self.protocol, self.leader, mid, meta if mid == self.leader else [])
            m["protocols"] = protos
        else:
            self.members[mid] = {"protocols": protos, "session": req.session_timeout, "rebalance": rebalance,
                                 "last_seen": self.now(), "join_fut": None, "sync_fut": None,
                                 "joined_at": (self.now(), self.n)}
            m = self.members[mid]
        m["session"], m["rebalance"] = req.session_timeout, rebalance
        self._prepare_rebalance()
        fut = loop.create_future()
        if m.get("join_fut") is not None and not m["join_fut"].done():
            m["join_fut"].set_result(R(25))
        m["join_fut"] = fut
        m["last_seen"] = self.now()
        self._maybe_complete_join()
        return await fut

    async def sync(self, req):
        self.check_sessions()
        mid = req.member_id
        if mid not in self.members:
            return 25, b""
        if req.generation_id != self.generation:
            return 22, b""
        self.touch(mid)
        if self.state == "PreparingRebalance":
            return 27, b""
        if self.state == "Stable":
            return 0, self.assignments.get(mid, b"")
        if self.state != "CompletingRebalance":
            return 25, b""
        m = self.members[mid]
        fut = asyncio.get_event_loop().create_future()
        m["sync_fut"] = fut
        if mid == self.leader:
            self.assignments = {k: bytes(v) for k, v in req.group_assignment}
            self.state = "Stable"
            self.history.append((self.generation, dict(self.assignments), sorted(self.members)))
            self.cluster.group_events.append((self.now(), self.gid, "stable", self.generation))
            for k, mm in self.members.items():
                f = mm.get("sync_fut")
                if f is not None and not f.done():
                    f.set_result((0, self.assignments.get(k, b"")))
                mm["sync_fut"] = None
        res = await fut
        d = getattr(self.cluster, "sync_delay", 0.0)
        if d:
            await asyncio.sleep(d)  # slow reply: the member stays blocked in SyncGroup
        return res

    def heartbeat(self, req):
        self.check_sessions()
        mid = req.member_id
        if mid not in self.members:
            return 25
        if req.generation_id != self.generation:
            return 22
        self.touch(mid)
        if self.state == "PreparingRebalance":
            return 27
        return 0

    def leave(self, req):
        mid = req.member_id
        self.pending_ids.discard(mid)
        if mid in self.members:
            m = self.members.pop(mid)
            for k in ("join_fut", "sync_fut"):
                if m.get(k) is not None and not m[k].done():
                    m[k].set_result((25, -1, "", "", "", []) if k == "join_fut" else (25, b""))
            self.cluster.group_events.append((self.now(), self.gid, "leave", mid))
            if self.members:
                self._prepare_rebalance()
                self._maybe_complete_join()
            else:
                self.state = "Empty"
                self.generation += 1
            return 0
        return 25

    def commit(self, req):
        self.check_sessions()
        mid = req.consumer_id
        gen = req.consumer_group_generation_id
        err = 0
        # GroupCoordinator.doCommitOffsets (2.8): a commit without generation is only taken while the group
        # is Empty (the group merely stores offsets); otherwise the sender must be a member of this generation
        if gen >= 0 or mid or self.members:
            if mid not in self.members:
                err = 25
            elif gen != self.generation:
                err = 22
            elif self.state == "CompletingRebalance":
                err = 27
            else:
                self.touch(mid)
        out = []
        for topic, parts in req.topics:
            pl = []
            for p, off, meta in parts:
                self.commits.append((self.now(), mid, gen, topic, p, off, err == 0))
                if not err:
                    self.offsets[(topic, p)] = (off, meta)
                pl.append((p, err))
            out.append((topic, pl))
        return out

    def fetch_offsets(self, req):
        out = []
        for topic, parts in req.topics:
            pl = []
            for p in parts:
                off, meta = self.offsets.get((topic, p), (-1, ""))
                pl.append((p, off, meta, 0))
            out.append((topic, pl))
        return out


class Cluster:
    def __init__(self, nodes=(0, 1), topics=None, log_append_time=(), versions=None, latency=0.001):
        self.nodes = list(nodes)
        self.topics = dict(topics or {"t": 2})
        self.versions = dict(DEFAULT_VERSIONS)
        if versions:
            self.versions.update(versions)
        self.latency = latency
        self.logs = {}
        self.leader = {}
        for t, n in self.topics.items():
            for p in range(n):
                self.logs[(t, p)] = PartitionLog(self, t, p, t in log_append_time)
                self.leader[(t, p)] = self.nodes[p % len(self.nodes)]
        self.down = set()  # unreachable nodes
        self.metadata_overrides = {}  # (t,p) -> leader reported in metadata (stale metadata)
        self.arrivals = []  # dict(time,node,api,version,req,reply)
        self.inflight_produce = collections.Counter()  # (t,p) -> requests being processed
        self.max_inflight_per_partition = collections.Counter()
        self.inflight_node = collections.Counter()
        self.max_inflight_per_node = collections.Counter()
        self.problems = []
        self.seq_presented = []
        self.seq_errors = []
        self.duplicates_absorbed = 0
        self.allow_unknown_producer_seq = False
        self.fault_fn = None  # callable(cluster, node, req, seqno) -> None | fault
        self.request_no = 0
        self.txns = {}  # transactional id -> TxnState
        self.next_pid = 1000
        self.txn_coordinator_node = self.nodes[0]
        self.group_coordinator_node = self.nodes[-1]
        self.coordinator_available = True
        self.groups = {}
        self.group_events = []
        self.member_id_required = True
        self.conns = []
        self.unauthorized_topics = set()
        self.unauthorized_groups = set()
        self.marker_delay = 0.0
        self.txn_log = []  # (time, event, ...)
        self.fetch_cut = None  # callable(cluster, tp, nbatches_available) -> max batches to return

    def now(self):
        return asyncio.get_event_loop().time()

    def observe_txn_produce(self, tp, pid, epoch):
        """ground truth for C07: transactional data only inside an open transaction, and only to
        partitions whose AddPartitionsToTxn the coordinator has acknowledged (the leader itself does
        not check this -- pre-KIP-890 behaviour)"""
        st = None
        for s in self.txns.values():
            if s.pid == pid:
                st = s
        if st is None:
            self.problems.append(f"transactional produce to {tp} by an unknown producer id {pid}")
            return
        self.txn_log.append((self.now(), "produce", pid, epoch, tp, st.state, tp in st.partitions))
        if epoch != st.epoch:
            return  # a fenced incarnation: rejected by the epoch check
        if st.state != "Ongoing":
            self.problems.append(f"transactional data written to {tp} outside an open transaction (coordinator state {st.state})")
        elif tp not in st.partitions:
            self.problems.append(f"produce to {tp} before the coordinator acknowledged adding it to the transaction")

    def now_ms(self):
        return int(1_600_000_000_000 + self.now() * 1000)

    def group(self, gid):
        if gid not in self.groups:
            self.groups[gid] = Group(self, gid)
        return self.groups[gid]

    # ---- metadata
    def metadata(self, req, version):
        want = req.topics
        brokers = [(n, f"h{n}", 9092, None) for n in self.nodes]
        topics = []
        names = list(self.topics) if (want is None or (version == 0 and not want)) else list(want)
        if want is not None and len(want) == 0 and version >= 1:
            names = []
        for t in names:
            if t not in self.topics:
                topics.append((3, t, False, []))
                continue
            parts = []
            for p in range(self.topics[t]):
                ld = self.metadata_overrides.get((t, p), self.leader[(t, p)])
                err = 5 if ld == -1 else 0
                parts.append((err, p, ld, [ld if ld >= 0 else 0], [ld if ld >= 0 else 0]))
            topics.append((0, t, False, parts))
        R = req.RESPONSE_TYPE
        if version == 0:
            return R([(n, h, p) for n, h, p, _ in brokers], [(e, t, ps) for e, t, _, ps in topics])
        return R(brokers, self.nodes[0], topics)

    # ---- produce
    def produce(self, node, req, version):
        out = []
        acks = req.required_acks
        for topic, parts in req.topics:
            pl = []
            for p, raw in parts:
                tp = (topic, p)
                if tp not in self.logs:
                    err, base, ts, lso = 3, -1, -1, -1
                elif topic in self.unauthorized_topics:
                    err, base, ts, lso = 29, -1, -1, -1
                elif self.leader[tp] != node:
                    err, base, ts, lso = 6, -1, -1, -1
                else:
                    log = self.logs[tp]
                    err, base, ts = log.validate_and_append(raw, self.now_ms())
                    lso = log.log_start
                if version < 2:
                    pl.append((p, err, base))
                elif version <= 4:
                    pl.append((p, err, base, ts))
                elif version <= 7:
                    pl.append((p, err, base, ts, lso))
                else:
                    pl.append((p, err, base, ts, lso, [], None))
            out.append((topic, pl))
        R = req.RESPONSE_TYPE
        if version == 0:
            return R(out)
        return R(out, 0)

    # ---- fetch
    def fetch(self, node, req, version):
        out = []
        iso = getattr(req, "isolation_level", 0) if version >= 4 else 0
        for topic, parts in req.topics:
            pl = []
            for part in parts:
                if version >= 9:
                    p, _, off, _, _mb = part
                elif version >= 5:
                    p, off, _, _mb = part
                else:
                    p, off, _mb = part
                tp = (topic, p)
                if tp not in self.logs:
                    err, hw, lso, lstart, aborted, data = 3, -1, -1, -1, [], b""
                elif self.leader[tp] != node:
                    err, hw, lso, lstart, aborted, data = 6, -1, -1, -1, [], b""
                else:
                    log = self.logs[tp]
                    hw, lso, lstart = log.high_watermark, log.last_stable_offset, log.log_start
                    if off < log.log_start or off > log.next_offset:
                        err, aborted, data = 1, [], b""
                    else:
                        err = 0
                        bound = lso if iso == 1 else hw
                        avail = [b for b in log.batches if b.last >= off and b.base < bound and b.last >= log.log_start]
                        if self.fetch_cut is not None and avail:
                            k = self.fetch_cut(self, tp, len(avail))
                            avail = avail[:max(1, k)]
                        data = b"".join(log.encode_batch(b) for b in avail)
                        aborted = []
                        if iso == 1 and avail:
                            lo, hi = off, avail[-1].last
                            for pid, first, marker in log.aborted:
                                if marker >= lo and first <= hi:
                                    aborted.append((pid, first))
                if version <= 3:
                    pl.append((p, err, hw, data))
                elif version == 4:
                    pl.append((p, err, hw, lso, aborted, data))
                elif version <= 10:
                    pl.append((p, err, hw, lso, lstart, aborted, data))
                else:
                    pl.append((p, err, hw, lso, lstart, aborted, -1, data))
            out.append((topic, pl))
        R = req.RESPONSE_TYPE
        if version == 0:
            return R(out)
        if version <= 6:
            return R(0, out)
        return R(0, 0, 0, out)

    @staticmethod
    def _fetch_has_data(resp, version):
        for _t, parts in resp.topics:
            for p in parts:
                if p[1] != 0 or len(p[-1]) > 0:
                    return True
        return False

    def list_offsets(self, node, req, version):
        iso = getattr(req, "isolation_level", 0) if version >= 2 else 0
        out = []
        for topic, parts in req.topics:
            pl = []
            for part in parts:
                if version == 0:
                    p, ts, _mx = part
                elif version <= 3:
                    p, ts = part
                else:
                    p, _, ts = part
                tp = (topic, p)
                if tp not in self.logs:
                    err, off = 3, -1
                elif self.leader[tp] != node:
                    err, off = 6, -1
                else:
                    log = self.logs[tp]
                    err = 0
                    if ts == -2:
                        off = log.log_start
                    elif ts == -1:
                        off = log.last_stable_offset if iso == 1 else log.high_watermark
                    else:
                        off = -1
                        for b in log.batches:
                            for r in b.records:
                                if r[4] >= ts and off < 0:
                                    off = r[0]
                if version == 0:
                    pl.append((p, err, [off] if off >= 0 else []))
                elif version <= 3:
                    pl.append((p, err, -1, off))
                else:
                    pl.append((p, err, -1, off, -1))
            out.append((topic, pl))
        R = req.RESPONSE_TYPE
        if version <= 1:
            return R(out)
        return R(0, out)

    # ---- coordinators
    def find_coordinator(self, node, req, version):
        ctype = getattr(req, "coordinator_type", 0) if version >= 1 else 0
        key = req.coordinator_key if version >= 1 else req.consumer_group
        target = self.txn_coordinator_node if ctype == 1 else self.group_coordinator_node
        err = 0
        if not self.coordinator_available:
            err, target = 15, -1
        if ctype == 0 and key in self.unauthorized_groups:
            err, target = 30, -1
        R = req.RESPONSE_TYPE
        host = f"h{target}"
        if version == 0:
            return R(err, target, host, 9092)
        return R(0, err, None, target, host, 9092)

    def _txn_check(self, node, req):
        if node != self.txn_coordinator_node:
            return 16, None
        st = self.txns.get(req.transactional_id)
        if st is None or st.pid != req.producer_id:
            return 49, None  # INVALID_PRODUCER_ID_MAPPING
        if req.producer_epoch < st.epoch:
            return 47, None
        if req.producer_epoch > st.epoch:
            return 47, None
        return 0, st

    def init_pid(self, node, req):
        R = req.RESPONSE_TYPE
        tid = req.transactional_id
        if tid is None:
            self.next_pid += 1
            return R(0, 0, self.next_pid, 0)
        if node != self.txn_coordinator_node:
            return R(0, 16, -1, -1)
        st = self.txns.get(tid)
        if st is None:
            self.next_pid += 1
            st = self.txns[tid] = TxnState(self.next_pid)
        if st.state == "Ongoing":
            # abort the previous incarnation's transaction first, bumping the epoch (fencing)
            st.epoch += 1
            self._end(st, False, bumped=True)
            return R(0, 51, -1, -1)  # CONCURRENT_TRANSACTIONS until markers are written
        if st.state in ("PrepareCommit", "PrepareAbort"):
            return R(0, 51, -1, -1)
        st.epoch += 1
        st.state = "Empty"
        self.txn_log.append((self.now(), "init", tid, st.pid, st.epoch))
        for log in self.logs.values():
            pst = log.producers.get(st.pid)
            if pst is not None and pst["epoch"] < st.epoch:
                pass
        return R(0, 0, st.pid, st.epoch)

    def add_partitions(self, node, req):
        R = req.RESPONSE_TYPE
        err, st = self._txn_check(node, req)
        if not err and st.state in ("PrepareCommit", "PrepareAbort"):
            err = 51
        out = []
        for topic, parts in req.topics:
            pl = []
            for p in parts:
                e = err
                if not e and topic in self.unauthorized_topics:
                    e = 29
                if not e and (topic, p) not in self.logs:
                    e = 3
                pl.append((p, e))
            out.append((topic, pl))
        anybad = any(e for _, pl in out for _, e in pl)
        if anybad and not err:
            out = [(t, [(p, e if e else 55) for p, e in pl]) for t, pl in out]  # OPERATION_NOT_ATTEMPTED
        if not anybad:
            st.state = "Ongoing"
            for topic, parts in req.topics:
                for p in parts:
                    st.partitions.add((topic, p))
            self.txn_log.append((self.now(), "add_partitions", req.transactional_id,
                                 sorted((t, p) for t, ps in req.topics for p in ps)))
        return R(0, out)

    def add_offsets(self, node, req):
        R = req.RESPONSE_TYPE
        err, st = self._txn_check(node, req)
        if not err and st.state in ("PrepareCommit", "PrepareAbort"):
            err = 51
        if not err and req.group_id in self.unauthorized_groups:
            err = 30
        if not err:
            st.state = "Ongoing"
            st.groups.add(req.group_id)
            self.txn_log.append((self.now(), "add_offsets", req.transactional_id, req.group_id))
        return R(0, err)

    def txn_offset_commit(self, node, req):
        R = req.RESPONSE_TYPE
        err = 0
        if node != self.group_coordinator_node:
            err = 16
        st = self.txns.get(req.transactional_id)
        if not err and (st is None or st.pid != req.producer_id):
            err = 49
        if not err and req.producer_epoch != st.epoch:
            err = 47
        if not err and req.group_id in self.unauthorized_groups:
            err = 30
        out = []
        g = self.group(req.group_id)
        for topic, parts in req.topics:
            pl = []
            for p, off, meta in parts:
                if not err:
                    g.pending_txn_offsets.setdefault((req.producer_id, req.producer_epoch), {})[(topic, p)] = (off, meta)
                pl.append((p, err))
            out.append((topic, pl))
        if not err:
            self.txn_log.append((self.now(), "txn_offset_commit", req.transactional_id, req.group_id))
        return R(0, out)

    def _end(self, st, commit, bumped=False):
        st.state = "PrepareCommit" if commit else "PrepareAbort"
        parts, groups = set(st.partitions), set(st.groups)
        epoch = st.epoch

        def write():
            for tp in sorted(parts):
                self.logs[tp].write_marker(st.pid, epoch, commit)
            for gid in groups:
                g = self.group(gid)
                for key in list(g.pending_txn_offsets):
                    if key[0] == st.pid:
                        offs = g.pending_txn_offsets.pop(key)
                        if commit:
                            g.offsets.update(offs)
            st.partitions.clear()
            st.groups.clear()
            st.state = "CompleteCommit" if commit else "CompleteAbort"
            self.txn_log.append((self.now(), "markers_written", st.pid, commit, sorted(parts)))

        if self.marker_delay > 0:
            asyncio.get_event_loop().call_later(self.marker_delay, write)
        else:
            write()

    def end_txn(self, node, req):
        R = req.RESPONSE_TYPE
        err, st = self._txn_check(node, req)
        commit = bool(req.transaction_result)
        if not err:
            if st.state == "Ongoing":
                # protocol-order observations (ground truth for C07)
                for tp in st.partitions:
                    if self.inflight_produce[tp]:
                        self.problems.append(f"EndTxn while a produce request for {tp} is being processed")
                self.txn_log.append((self.now(), "end", req.transactional_id, commit, sorted(st.partitions)))
                self._end(st, commit)
            elif st.state in ("PrepareCommit", "PrepareAbort"):
                err = 51
            elif st.state == ("CompleteCommit" if commit else "CompleteAbort"):
                err = 0
            else:
                err = 48  # INVALID_TXN_STATE
        return R(0, err)

    # ---- dispatch
    async def handle(self, node, req):
        k, v = req.API_KEY, req.API_VERSION
        R = req.RESPONSE_TYPE
        if k == 3:
            return self.metadata(req, v)
        if k == 0:
            resp = self.produce(node, req, v)
            d = getattr(self, "produce_delay", {}).get(node, 0.0)
            if d:
                await asyncio.sleep(d)  # slow leader: appended, the reply is held back for a while
            return resp
        if k == 1:
            resp = self.fetch(node, req, v)
            if not self._fetch_has_data(resp, v):
                # long poll: nothing to return, wait max_wait_time and look again
                await asyncio.sleep(max(req.max_wait_time, 1) / 1000)
                resp = self.fetch(node, req, v)
            return resp
        if k == 2:
            return self.list_offsets(node, req, v)
        if k == 10:
            return self.find_coordinator(node, req, v)
        if k == 22:
            return self.init_pid(node, req)
        if k == 24:
            d = getattr(self, "add_partitions_delay", 0.0)
            if d:
                await asyncio.sleep(d)  # slow coordinator: AddPartitionsToTxn stays unanswered for a while
            return self.add_partitions(node, req)
        if k == 25:
            return self.add_offsets(node, req)
        if k == 26:
            return self.end_txn(node, req)
        if k == 28:
            return self.txn_offset_commit(node, req)
        if k in (11, 12, 13, 14, 8, 9):
            gid = req.consumer_group if k in (8, 9) else req.group
            if node != self.group_coordinator_node:
                err = 16
                if k == 11:
                    return self._join_response(req, v, (err, -1, "", "", "", []))
                if k == 14:
                    return R(err, b"") if v == 0 else R(0, err, b"")
                if k in (12, 13):
                    return R(err) if v == 0 else R(0, err)
                if k == 8:
                    return R([(t, [(p, err) for p, _, _ in ps]) for t, ps in req.topics])
                return R([(t, [(p, -1, "", err) for p in ps]) for t, ps in req.topics])
            g = self.group(gid)
            if gid in self.unauthorized_groups:
                pass
            if k == 11:
                return self._join_response(req, v, await g.join(req, v))
            if k == 14:
                err, a = await g.sync(req)
                return R(err, a) if v == 0 else R(0, err, a)
            if k == 12:
                err = g.heartbeat(req)
                d = getattr(self, "heartbeat_delay", 0.0)
                if d:
                    await asyncio.sleep(d)  # slow coordinator: the (successful) heartbeat reply takes a while
                return R(err) if v == 0 else R(0, err)
            if k == 13:
                err = g.leave(req)
                return R(err) if v == 0 else R(0, err)
            if k == 8:
                return R(g.commit(req))
            d = getattr(self, "offset_fetch_delay", 0.0)
            if d:
                await asyncio.sleep(d)  # slow coordinator: the OffsetFetch stays in flight
            return R(g.fetch_offsets(req))
        raise AssertionError(f"simkafka: unhandled api key {k}")

    def _join_response(self, req, v, res):
        err, gen, proto, leader, member, members = res
        R = req.RESPONSE_TYPE
        if v >= 5:
            members = [(m, None, md) for m, md in members]
        if v >= 2:
            return R(0, err, gen, proto, leader, member, members)
        return R(err, gen, proto, leader, member, members)


def describe(req):
    """decoded fields of a request for the arrival log"""
    k = req.API_KEY
    d = {"api": NAMES.get(k, str(k)), "version": req.API_VERSION}
    if k == 0:
        parts = []
        for topic, ps in req.topics:
            for p, raw in ps:
                info = {"tp": (topic, p)}
                try:
                    r = MemoryRecords(bytes(raw))
                    b = r.next_batch()
                    if b is not None and b.magic >= 2:
                        info.update(pid=b.producer_id, epoch=b.producer_epoch, seq=b.base_sequence,
                                    transactional=b.is_transactional)
                        info["count"] = len(list(b))
                    elif b is not None:
                        info["count"] = len(list(b))
                        info["magic"] = b.magic
                except Exception as e:  # noqa: BLE001
                    info["undecodable"] = repr(e)
                info["raw"] = bytes(raw)
                parts.append(info)
        d["partitions"] = parts
        d["acks"] = req.required_acks
        d["transactional_id"] = getattr(req, "transactional_id", None)
    elif k == 1:
        d["isolation_level"] = getattr(req, "isolation_level", None)
        d["partitions"] = [((t, p[0]), (p[2] if req.API_VERSION >= 9 else p[1])) for t, ps in req.topics for p in ps]
    elif k == 2:
        d["isolation_level"] = getattr(req, "isolation_level", None)
        d["partitions"] = [((t, p[0]), p[-1] if req.API_VERSION >= 4 else p[1]) for t, ps in req.topics for p in ps]
    elif k in (11, 12, 13, 14):
        d["group"] = req.group
        d["member_id"] = req.member_id
        d["generation"] = getattr(req, "generation_id", None)
        if k == 11:
            d["protocols"] = [n for n, _ in req.group_protocols]
        if k == 14:
            d["assignment_for"] = [m for m, _ in req.group_assignment]
    elif k == 8:
        d["group"] = req.consumer_group
        d["member_id"] = req.consumer_id
        d["generation"] = req.consumer_group_generation_id
        d["offsets"] = [((t, p), off) for t, ps in req.topics for p, off, _ in ps]
    elif k in (24, 25, 26, 28, 22):
        d["transactional_id"] = req.transactional_id
        if k == 24:
            d["partitions"] = [(t, p) for t, ps in req.topics for p in ps]
        if k == 26:
            d["commit"] = bool(req.transaction_result)
        if k == 25:
            d["group"] = req.group_id
    return d


class SimConn:
    def __init__(self, cluster, host, port, on_close=None, request_timeout_ms=40000, **kw):
        self.cluster = cluster
        self.host, self.port = host, port
        self.node = int(host[1:]) if host.startswith("h") and host[1:].isdigit() else cluster.nodes[0]
        self._on_close = on_close
        self._closed = False
        self._request_timeout = request_timeout_ms / 1000
        self._versions = dict(cluster.versions)
        self.pending = set()
        self.close_reasons = []
        self.client_id = kw.get("client_id")
        cluster.conns.append(self)

    def connected(self):
        return not self._closed

    def close(self, reason=None, exc=None):
        if not self._closed:
            self._closed = True
            self.close_reasons.append(reason)
            for f in list(self.pending):
                if not f.done():
                    f.set_exception(E.KafkaConnectionError("Connection closed"))
            if self._on_close is not None:
                cb, self._on_close = self._on_close, None
                cb(self, reason)
        f = asyncio.get_event_loop().create_future()
        f.set_result(None)
        return f

    def send(self, request, expect_response=True):
        if self._closed:
            raise E.KafkaConnectionError(f"No connection to broker at {self.host}:{self.port}")
        req = request.prepare(self._versions)
        return self._roundtrip(req, expect_response)

    async def _roundtrip(self, req, expect_response):
        c = self.cluster
        loop = asyncio.get_event_loop()
        c.request_no += 1
        no = c.request_no
        entry = {"no": no, "time": loop.time(), "node": self.node, "req": describe(req), "reply": None, "fault": None,
                 "client": self.client_id, "reply_obj": None, "reply_time": None}
        c.arrivals.append(entry)
        fault = c.fault_fn(c, self.node, req, entry) if c.fault_fn else None
        entry["fault"] = fault
        gate = loop.create_future()
        self.pending.add(gate)
        tps = []
        if req.API_KEY == 0:
            tps = [(t, p) for t, ps in req.topics for p, _ in ps]
            for tp in tps:
                c.inflight_produce[tp] += 1
                c.max_inflight_per_partition[tp] = max(c.max_inflight_per_partition[tp], c.inflight_produce[tp])
            c.inflight_node[self.node] += 1
            c.max_inflight_per_node[self.node] = max(c.max_inflight_per_node[self.node], c.inflight_node[self.node])
        try:
            # network latency to the broker
            await asyncio.wait([gate], timeout=c.latency)
            if gate.done():
                gate.result()
            if self.node in c.down or fault == "drop_before" or self.client_id in getattr(c, "blackhole", ()):
                self.close(reason="sim-drop")
                raise E.KafkaConnectionError("connection dropped before the request was applied")
            if isinstance(fault, tuple) and fault[0] == "error":
                resp = error_response(req, fault[1])
            elif fault == "timeout_before":
                await asyncio.wait([gate], timeout=self._request_timeout)
                if gate.done():
                    gate.result()
                raise asyncio.TimeoutError()
            else:
                task = asyncio.ensure_future(c.handle(self.node, req))
                try:
                    await asyncio.wait([task, gate], return_when=asyncio.FIRST_COMPLETED)
                except asyncio.CancelledError:
                    task.cancel()  # the client gave up on the request: the model's handler goes with it
                    raise
                if gate.done() and not task.done():
                    task.cancel()
                    gate.result()
                resp = task.result()
                if isinstance(fault, tuple) and fault[0] == "error_after":
                    resp = error_response(req, fault[1])  # applied, then answered with an error
            entry["reply"] = summarize(resp)
            entry["reply_obj"] = resp
            entry["reply_time"] = loop.time()
            if fault == "drop_after":
                self.close(reason="sim-drop")
                raise E.KafkaConnectionError("connection dropped after the request was applied (reply lost)")
            if fault == "timeout_after":
                await asyncio.wait([gate], timeout=self._request_timeout)
                if gate.done():
                    gate.result()
                raise asyncio.TimeoutError()
            tick = getattr(c, "tick", None)
            if tick:
                # replies reach the client in bursts: everything due within one tick is delivered in the same
                # event-loop iteration (several sockets readable in one select() round)
                when = (int((loop.time() + c.latency) / tick) + 1) * tick
                due = loop.create_future()
                h = loop.call_at(when, lambda: due.done() or due.set_result(None))
                await asyncio.wait([gate, due], return_when=asyncio.FIRST_COMPLETED)
                h.cancel()
            else:
                await asyncio.wait([gate], timeout=c.latency)
            if gate.done():
                gate.result()
            if not expect_response:
                return None
            return resp
        finally:
            self.pending.discard(gate)
            for tp in tps:
                c.inflight_produce[tp] -= 1
            if req.API_KEY == 0:
                c.inflight_node[self.node] -= 1


def summarize(resp):
    try:
        return repr(resp)[:300]
    except Exception:  # noqa: BLE001
        return "<resp>"


def error_response(req, code):
    """a reply of the right type carrying `code` for every partition / at top level"""
    k, v = req.API_KEY, req.API_VERSION
    R = req.RESPONSE_TYPE
    if k == 0:
        out = []
        for topic, ps in req.topics:
            pl = []
            for p, _ in ps:
                if v < 2:
                    pl.append((p, code, -1))
                elif v <= 4:
                    pl.append((p, code, -1, -1))
                elif v <= 7:
                    pl.append((p, code, -1, -1, -1))
                else:
                    pl.append((p, code, -1, -1, -1, [], None))
            out.append((topic, pl))
        return R(out) if v == 0 else R(out, 0)
    if k == 1:
        out = []
        for topic, ps in req.topics:
            pl = []
            for part in ps:
                p = part[0]
                if v <= 3:
                    pl.append((p, code, -1, b""))
                elif v == 4:
                    pl.append((p, code, -1, -1, [], b""))
                elif v <= 10:
                    pl.append((p, code, -1, -1, -1, [], b""))
                else:
                    pl.append((p, code, -1, -1, -1, [], -1, b""))
            out.append((topic, pl))
        return R(out) if v == 0 else (R(0, out) if v <= 6 else R(0, 0, 0, out))
    if k == 2:
        out = [(t, [((p[0], code, []) if v == 0 else ((p[0], code, -1, -1) if v <= 3 else (p[0], code, -1, -1, -1))) for p in ps])
               for t, ps in req.topics]
        return R(out) if v <= 1 else R(0, out)
    if k == 10:
        return R(code, -1, "", -1) if v == 0 else R(0, code, None, -1, "", -1)
    if k == 22:
        return R(0, code, -1, -1)
    if k == 24:
        return R(0, [(t, [(p, code) for p in ps]) for t, ps in req.topics])
    if k in (25, 26):
        return R(0, code)
    if k == 28:
        return R(0, [(t, [(p, code) for p, _, _ in ps]) for t, ps in req.topics])
    if k == 11:
        members = []
        return R(0, code, -1, "", "", "", members) if v >= 2 else R(code, -1, "", "", "", members)
    if k == 14:
        return R(code, b"") if v == 0 else R(0, code, b"")
    if k in (12, 13):
        return R(code) if v == 0 else R(0, code)
    if k == 8:
        return R([(t, [(p, code) for p, _, _ in ps]) for t, ps in req.topics])
    if k == 9:
        return R([(t, [(p, -1, "", code) for p in ps]) for t, ps in req.topics])
    raise AssertionError(f"no error response for api {k}")


class _Rnd:
    """deterministic stand-in for the `random` module inside aiokafka.client"""

    def __init__(self, pick=None):
        self.pick = pick
        self.n = 0

    def choice(self, seq):
        """round robin: deterministic, but every element is picked eventually (a fixed pick would
        livelock a client whose first broker is down, which real randomness does not)"""
        seq = list(seq)
        if self.pick is not None:
            return seq[self.pick(len(seq))]
        return seq[self._next() % len(seq)]

    def _next(self):
        # fixed-seed LCG: deterministic for re-execution, but not in lock-step with the caller's loops
        self.n = (self.n * 1103515245 + 12345) & 0x7FFFFFFF
        return self.n >> 16

    def shuffle(self, seq):
        k = self._next() % max(len(seq), 1)
        seq[:] = seq[k:] + seq[:k]
        return None

    def random(self):
        return 0.5


class installed:
    """context manager: route the library's connections to the simulated cluster"""

    def __init__(self, cluster, pick=None):
        self.cluster = cluster
        self.pick = pick

    def __enter__(self):
        c = self.cluster

        async def create_conn(host, port, **kw):
            node = int(host[1:]) if host.startswith("h") and host[1:].isdigit() else c.nodes[0]
            await asyncio.sleep(c.latency)
            if node in c.down or kw.get("client_id") in getattr(c, "blackhole", ()):
                raise E.KafkaConnectionError(f"Unable to connect to {host}:{port}")
            return SimConn(c, host, port, on_close=kw.get("on_close"),
                           request_timeout_ms=kw.get("request_timeout_ms", 40000), client_id=kw.get("client_id"))

        self.saved = (CLIENT.create_conn, CLIENT.random)
        CLIENT.create_conn = create_conn
        CLIENT.random = _Rnd(self.pick)
        return c

    def __exit__(self, *a):
        CLIENT.create_conn, CLIENT.random = self.saved
