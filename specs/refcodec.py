"""Independent reference codec for Kafka message formats v0, v1, v2, written from the Kafka
message-format definition (kafka.apache.org/documentation/#messageformat and #recordbatch), NOT from
aiokafka's code.  Used as oracle for C09/C10 and to build partition logs for the consumer harnesses.

Only stdlib: struct, zlib (crc32 for legacy), gzip for compressed payloads.  CRC-32C is computed
bit by bit from the Castagnoli polynomial.
"""
import gzip
import io
import struct
import zlib

# ---------------------------------------------------------------- primitives


def crc32c(data: bytes) -> int:
    crc = 0xFFFFFFFF
    for b in data:
        crc ^= b
        for _ in range(8):
            crc = (crc >> 1) ^ (0x82F63B78 if crc & 1 else 0)
    return crc ^ 0xFFFFFFFF


def zigzag(n: int) -> int:
    return (n << 1) ^ (n >> 63)


def unzigzag(z: int) -> int:
    return (z >> 1) ^ -(z & 1)


def put_varint(out: bytearray, n: int):
    z = zigzag(n) & 0xFFFFFFFFFFFFFFFF
    while True:
        b = z & 0x7F
        z >>= 7
        if z:
            out.append(b | 0x80)
        else:
            out.append(b)
            return


def get_varint(buf, pos):
    shift = 0
    z = 0
    for i in range(10):
        b = buf[pos]
        pos += 1
        z |= (b & 0x7F) << shift
        if not b & 0x80:
            return unzigzag(z), pos
        shift += 7
    raise ValueError("varint too long")


def varint_len(n: int) -> int:
    out = bytearray()
    put_varint(out, n)
    return len(out)


def gz(data: bytes) -> bytes:
    bio = io.BytesIO()
    with gzip.GzipFile(fileobj=bio, mode="wb", mtime=0) as f:
        f.write(data)
    return bio.getvalue()


def gunz(data: bytes) -> bytes:
    return gzip.GzipFile(fileobj=io.BytesIO(data)).read()


# Compression codecs other than gzip.  The block compressors themselves (snappy raw blocks, LZ4 frames,
# zstd frames) come from cramjam -- the same C libraries the client uses -- but the Kafka-specific glue is
# written here from the format descriptions: the xerial "SNAPPY" block stream that Kafka's Java client
# writes (snappy-java SnappyOutputStream) and the choice of frame format per codec id.
CODEC_NONE, CODEC_GZIP, CODEC_SNAPPY, CODEC_LZ4, CODEC_ZSTD = 0, 1, 2, 3, 4
XERIAL_HEADER = bytes([0x82]) + b"SNAPPY" + b"\x00" + struct.pack(">ii", 1, 1)


def xerial_encode(data: bytes, blocksize=32 * 1024) -> bytes:
    import cramjam
    out = bytearray(XERIAL_HEADER)
    for i in range(0, len(data), blocksize):
        block = bytes(cramjam.snappy.compress_raw(data[i:i + blocksize]))
        out += struct.pack(">i", len(block)) + block
    return bytes(out)


def xerial_decode(data: bytes) -> bytes:
    """strict: every block length is positive and the block lies inside the payload"""
    import cramjam
    if data[:16] != XERIAL_HEADER:
        return bytes(cramjam.snappy.decompress_raw(data))
    out = bytearray()
    pos = 16
    while pos < len(data):
        if pos + 4 > len(data):
            raise ValueError("truncated xerial block length")
        n = struct.unpack_from(">i", data, pos)[0]
        pos += 4
        if n <= 0 or pos + n > len(data):
            raise ValueError("xerial block length out of range")
        out += bytes(cramjam.snappy.decompress_raw(data[pos:pos + n]))
        pos += n
    return bytes(out)


def compress(codec: int, data: bytes) -> bytes:
    if codec == CODEC_NONE:
        return data
    if codec == CODEC_GZIP:
        return gz(data)
    import cramjam
    if codec == CODEC_SNAPPY:
        return xerial_encode(data)
    if codec == CODEC_LZ4:
        return bytes(cramjam.lz4.compress(data))
    if codec == CODEC_ZSTD:
        return bytes(cramjam.zstd.compress(data))
    raise NotImplementedError("codec")


def decompress(codec: int, data: bytes) -> bytes:
    if codec == CODEC_NONE:
        return data
    if codec == CODEC_GZIP:
        return gunz(data)
    import cramjam
    if codec == CODEC_SNAPPY:
        return xerial_decode(data)
    if codec == CODEC_LZ4:
        return bytes(cramjam.lz4.decompress(data))
    if codec == CODEC_ZSTD:
        return bytes(cramjam.zstd.decompress(data))
    raise NotImplementedError("codec")


# ---------------------------------------------------------------- v2

V2_HEADER = struct.Struct(">qiibIhiqqqhii")
ATTR_GZIP = 0x01
ATTR_LOG_APPEND = 0x08
ATTR_TXN = 0x10
ATTR_CONTROL = 0x20


def encode_v2_record(offset_delta, ts_delta, key, value, headers):
    body = bytearray()
    body.append(0)  # attributes
    put_varint(body, ts_delta)
    put_varint(body, offset_delta)
    if key is None:
        put_varint(body, -1)
    else:
        put_varint(body, len(key))
        body += key
    if value is None:
        put_varint(body, -1)
    else:
        put_varint(body, len(value))
        body += value
    put_varint(body, len(headers))
    for hk, hv in headers:
        hkb = hk.encode("utf-8")
        put_varint(body, len(hkb))
        body += hkb
        if hv is None:
            put_varint(body, -1)
        else:
            put_varint(body, len(hv))
            body += hv
    out = bytearray()
    put_varint(out, len(body))
    return bytes(out + body)


def encode_v2(base_offset, records, *, transactional=False, control=False, log_append_time=False,
              producer_id=-1, producer_epoch=-1, base_sequence=-1, codec=0, last_offset_delta=None,
              max_timestamp=None, leader_epoch=-1):
    """records: list of dict(offset=<absolute>, timestamp, key, value, headers)"""
    if records:
        first_ts = records[0]["timestamp"]
        max_ts = max(r["timestamp"] for r in records)
        lod = records[-1]["offset"] - base_offset
    else:
        first_ts, max_ts, lod = -1, -1, 0
    if last_offset_delta is not None:
        lod = last_offset_delta
    if max_timestamp is not None:
        max_ts = max_timestamp
    payload = b"".join(
        encode_v2_record(r["offset"] - base_offset, r["timestamp"] - first_ts, r.get("key"), r.get("value"),
                         r.get("headers", [])) for r in records)
    attrs = codec & 0x07
    payload = compress(codec & 0x07, payload)
    if log_append_time:
        attrs |= ATTR_LOG_APPEND
    if transactional:
        attrs |= ATTR_TXN
    if control:
        attrs |= ATTR_CONTROL
    after_crc = struct.pack(">hiqqqhii", attrs, lod, first_ts, max_ts, producer_id, producer_epoch, base_sequence,
                            len(records)) + payload
    crc = crc32c(after_crc)
    length = 4 + 1 + 4 + len(after_crc)  # leader epoch + magic + crc + rest
    return struct.pack(">qiibI", base_offset, length, leader_epoch, 2, crc) + after_crc


def control_record(commit: bool):
    # key: version int16, type int16 (0 abort, 1 commit); value: version int16, coordinator epoch int32
    return dict(key=struct.pack(">hh", 0, 1 if commit else 0), value=struct.pack(">hi", 0, 0), headers=[])


def decode_v2(buf, pos=0):
    (base, length, leader_epoch, magic, crc, attrs, lod, first_ts, max_ts, pid, pepoch, bseq,
     count) = V2_HEADER.unpack_from(buf, pos)
    end = pos + 12 + length
    data = bytes(buf[pos + V2_HEADER.size:end])
    ok_crc = crc32c(bytes(buf[pos + 21:end])) == crc
    data = decompress(attrs & 0x07, data)
    recs = []
    p = 0
    for _ in range(count):
        ln, p = get_varint(data, p)
        start = p
        p += 1  # attributes
        tsd, p = get_varint(data, p)
        od, p = get_varint(data, p)
        kl, p = get_varint(data, p)
        key = None
        if kl >= 0:
            key = data[p:p + kl]
            p += kl
        vl, p = get_varint(data, p)
        value = None
        if vl >= 0:
            value = data[p:p + vl]
            p += vl
        hc, p = get_varint(data, p)
        headers = []
        for _h in range(hc):
            hkl, p = get_varint(data, p)
            hk = data[p:p + hkl].decode("utf-8")
            p += hkl
            hvl, p = get_varint(data, p)
            hv = None
            if hvl >= 0:
                hv = data[p:p + hvl]
                p += hvl
            headers.append((hk, hv))
        assert p - start == ln, "record length mismatch"
        ts = max_ts if attrs & ATTR_LOG_APPEND else first_ts + tsd
        recs.append(dict(offset=base + od, timestamp=ts, key=key, value=value, headers=headers))
    assert p == len(data), "trailing bytes after the last record"
    return dict(magic=2, base_offset=base, length=length, crc_ok=ok_crc, attrs=attrs, last_offset_delta=lod,
                first_timestamp=first_ts, max_timestamp=max_ts, producer_id=pid, producer_epoch=pepoch,
                base_sequence=bseq, count=count, records=recs, end=end,
                transactional=bool(attrs & ATTR_TXN), control=bool(attrs & ATTR_CONTROL),
                timestamp_type=1 if attrs & ATTR_LOG_APPEND else 0)


# ---------------------------------------------------------------- v0 / v1


def encode_legacy_message(magic, offset, timestamp, key, value, attrs=0):
    body = struct.pack(">bb", magic, attrs)
    if magic == 1:
        body += struct.pack(">q", timestamp)
    body += struct.pack(">i", -1 if key is None else len(key)) + (key or b"")
    body += struct.pack(">i", -1 if value is None else len(value)) + (value or b"")
    crc = zlib.crc32(body) & 0xFFFFFFFF
    msg = struct.pack(">I", crc) + body
    return struct.pack(">qi", offset, len(msg)) + msg


def encode_legacy(magic, records, *, compressed=False, log_append_time=False, codec=CODEC_GZIP):
    """records: list of dict(offset=<absolute>, timestamp, key, value).  Uncompressed: one message each.
    compressed (gzip): one wrapper message; v1 inner offsets are relative (0..n-1) and the wrapper
    carries the absolute offset of the last inner message; v0 inner offsets are absolute."""
    if not compressed:
        return b"".join(encode_legacy_message(magic, r["offset"], r.get("timestamp", -1), r.get("key"),
                                              r.get("value"), 0x08 if (log_append_time and magic == 1) else 0)
                        for r in records)
    inner = b""
    last = records[-1]["offset"]
    for i, r in enumerate(records):
        if magic == 1:
            rel = r["offset"] - (last - (len(records) - 1)) if False else i
            # relative offsets count from the first inner message; gaps are expressed by the wrapper
            rel = r["offset"] - records[0]["offset"]
            inner += encode_legacy_message(1, rel, r.get("timestamp", -1), r.get("key"), r.get("value"))
        else:
            inner += encode_legacy_message(0, r["offset"], -1, r.get("key"), r.get("value"))
    attrs = codec | (0x08 if (log_append_time and magic == 1) else 0)
    wts = max(r.get("timestamp", -1) for r in records) if magic == 1 else -1
    return encode_legacy_message(magic, last, wts, None, compress(codec, inner), attrs)


def decode_legacy_set(buf, pos=0, end=None, _depth=0):
    end = len(buf) if end is None else end
    out = []
    while pos + 12 <= end:
        offset, size = struct.unpack_from(">qi", buf, pos)
        if pos + 12 + size > end:
            break
        body = bytes(buf[pos + 12:pos + 12 + size])
        crc, magic, attrs = struct.unpack_from(">Ibb", body, 0)
        crc_ok = zlib.crc32(body[4:]) & 0xFFFFFFFF == crc
        p = 6
        ts = -1
        if magic == 1:
            ts = struct.unpack_from(">q", body, p)[0]
            p += 8
        kl = struct.unpack_from(">i", body, p)[0]
        p += 4
        key = None
        if kl >= 0:
            key = body[p:p + kl]
            p += kl
        vl = struct.unpack_from(">i", body, p)[0]
        p += 4
        value = None
        if vl >= 0:
            value = body[p:p + vl]
            p += vl
        if attrs & 0x07:
            inner = decode_legacy_set(decompress(attrs & 0x07, value), _depth=_depth + 1)
            if magic == 1:
                # absolute = wrapper offset - (last relative - relative)
                last_rel = inner[-1]["offset"]
                for m in inner:
                    m["offset"] = offset - (last_rel - m["offset"])
                    if attrs & 0x08:
                        m["timestamp"] = ts
            for m in inner:
                m["crc_ok"] = m["crc_ok"] and crc_ok
            out.extend(inner)
        else:
            out.append(dict(offset=offset, timestamp=ts, key=key, value=value, headers=[], magic=magic,
                            crc_ok=crc_ok, timestamp_type=(1 if attrs & 0x08 else 0) if magic == 1 else None))
        pos += 12 + size
    return out


def split_batches(buf):
    """A buffer of concatenated batches of any mix of formats -> list of (magic, start, end);
    a trailing partial batch is ignored."""
    out = []
    pos = 0
    n = len(buf)
    while n - pos >= 17:
        length = struct.unpack_from(">i", buf, pos + 8)[0]
        end = pos + 12 + length
        if end > n or length < 0:
            break
        magic = buf[pos + 16]
        out.append((magic, pos, end))
        pos = end
    return out
