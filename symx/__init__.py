from .core import (SymInt, ZInt, SymReal, SymBool, EngineUnsupported, PathAbort, s_and, s_or, s_not,
                   s_implies, s_ite, is_sym, concretize)
from .explore import Harness
