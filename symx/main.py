import argparse, json, logging, os, sys
logging.disable(logging.CRITICAL)
sys.setrecursionlimit(20000)

def main():
    ap = argparse.ArgumentParser()
    ap.add_argument("prop")
    ap.add_argument("--tier", default=os.environ.get("VERIF_TIER", "quick"))
    ap.add_argument("--replay")
    ap.add_argument("--only", action="append")
    ap.add_argument("--workers", type=int)
    a = ap.parse_args()
    if a.replay:
        from symx.explore import replay_file
        r = replay_file(a.replay)
        print(json.dumps(r, indent=1, default=str))
        if r["failures"]:
            print(f"VIOLATION property={a.prop} replay={a.replay}")
            return 1
        return 3 if (r["invalid"] or r["error"]) else 0
    from symx.explore import run_check
    return run_check(a.prop, a.tier, a.only, a.workers)

sys.exit(main())
