"""Sources of harness inputs: symbolic (under exploration) or concrete (replay)."""
from __future__ import annotations

from fractions import Fraction

import z3

from . import core
from .core import PathAbort, SymBool, SymInt, SymReal, ZInt, _sw


class CheckFailed(Exception):
    pass


class SymSource:
    symbolic = True

    def __init__(self, ctx: core.Ctx, twin: bool = False):
        self.ctx = ctx
        self.twin = twin  # harnesses consult this to seed the oracle-side error (vacuity twin)
        self.log: list = []  # free-form observations for samples

    # ---- declarations
    def _decl(self, name, kind, const, meta):
        if name in self.ctx.vars:
            core.unsupported(f"duplicate variable name {name}")
        self.ctx.vars[name] = (kind, const, meta)

    def int(self, name: str, lo: int, hi: int) -> SymInt | int:
        """bit-vector backed exact int in [lo, hi]"""
        if lo == hi:
            self.ctx.vars[name] = ("const", lo, None)
            return lo
        signed = lo < 0
        width = _sw(lo, hi) if signed else max(hi.bit_length(), 1)
        v = z3.BitVec(name, width)
        self._decl(name, "bv", v, (signed, width, lo, hi))
        # constrain the RAW variable
        if signed:
            if lo != -(1 << (width - 1)):
                self.ctx.add(v >= lo)
            if hi != (1 << (width - 1)) - 1:
                self.ctx.add(v <= hi)
        else:
            if lo != 0:
                self.ctx.add(z3.UGE(v, lo))
            if hi != (1 << width) - 1:
                self.ctx.add(z3.ULE(v, hi))
        self.ctx.model = None
        return SymInt("leaf", (v, signed), lo, hi)

    def byte(self, name: str):
        return self.int(name, 0, 255)

    def bytes(self, name: str, n: int):
        return [self.int(f"{name}[{i}]", 0, 255) for i in range(n)]

    def zint(self, name: str, lo=None, hi=None) -> ZInt:
        v = z3.Int(name)
        self._decl(name, "int", v, None)
        if lo is not None:
            self.ctx.add(v >= lo)
        if hi is not None:
            self.ctx.add(v <= hi)
        self.ctx.model = None
        return ZInt(v)

    def real(self, name: str, lo=None, hi=None) -> SymReal:
        v = z3.Real(name)
        self._decl(name, "real", v, None)
        if lo is not None:
            self.ctx.add(v >= core._rexpr(lo))
        if hi is not None:
            self.ctx.add(v <= core._rexpr(hi))
        self.ctx.model = None
        return SymReal(v)

    def bool(self, name: str) -> SymBool:
        v = z3.Bool(name)
        self._decl(name, "bool", v, None)
        return SymBool(v)

    def choice(self, name: str, n: int) -> int:
        return self.ctx.choose(name, n)

    def flag(self, name: str) -> bool:
        return bool(self.ctx.choose(name, 2))

    # ---- assumptions / assertions (harness level only)
    def assume(self, cond, why: str = ""):
        self.ctx.assumes += 1
        if isinstance(cond, SymBool):
            e = z3.simplify(cond.e)
            if z3.is_true(e):
                return
            if z3.is_false(e):
                raise PathAbort("assume false")
            r = self.ctx.query(e)
            if r == "unsat":
                raise PathAbort("assume infeasible")
            self.ctx.add(e)
            self.ctx.model = None
        elif not cond:
            raise PathAbort("assume false")

    def check(self, cond, msg: str, **info):
        """Assert cond for every value on this path.  A sat answer for the negation is recorded as
        a candidate violation (with a model); the path continues under cond."""
        ctx = self.ctx
        if isinstance(cond, SymBool):
            e = z3.simplify(cond.e)
            if z3.is_true(e):
                ctx.checks += 1
                return True
            ctx.sym_checks += 1
            if z3.is_false(e):
                r = "sat"
            else:
                # staged: short timeout, then cheap concrete instantiations (can only refute),
                # then the full timeout.  "held" is only ever concluded from unsat.
                r = ctx.query_t(1000, z3.Not(e))
                if r == "unknown":
                    m = self._random_witness(e)
                    if m is not None:
                        ctx.notes.append(f"counterexample for '{msg}' found by concrete instantiation after a solver timeout")
                        self._violation(msg, m, info)
                        r = "witness"
                    else:
                        r = ctx.query(z3.Not(e))
            if r == "unsat":
                ctx.checks += 1
                ctx.cross_check_unsat(z3.Not(e), msg)
                return True
            if r == "sat":
                m = ctx.solver.model() if not z3.is_false(e) else ctx.get_model()
                self._violation(msg, m, info)
            elif r == "unknown":
                ctx.notes.append(f"unknown on check: {msg}")
            # continue under cond if that is cheaply feasible, else end the path here
            if z3.is_false(e) or ctx.query_t(2000, e) != "sat":
                raise PathAbort("check failed on whole path")
            ctx.add(e)
            ctx.model = None
            return False
        if cond:
            ctx.checks += 1
            return True
        self._violation(msg, ctx.get_model(), info)
        return False

    def _random_witness(self, e, tries=12):
        """The solver timed out on pc AND NOT e.  Try concrete instantiations of every declared
        variable (cheap: propagation only).  Can only refute; any witness is replayed like a model."""
        import random
        rnd = random.Random(len(self.ctx.trace) * 7919 + 17)
        ctx = self.ctx
        for t in range(tries):
            eqs = []
            for name, (kind, const, meta) in ctx.vars.items():
                if kind == "bv":
                    signed, width, lo, hi = meta
                    val = rnd.choice([lo, hi, rnd.randint(lo, hi), rnd.randint(lo, hi)]) if t else rnd.randint(lo, hi)
                    eqs.append(const == val)
                elif kind == "bool":
                    eqs.append(const == rnd.choice([True, False]))
            if not eqs:
                return None
            r = ctx.query(z3.Not(e), *eqs)
            if r == "sat":
                return ctx.solver.model()
        return None

    def _violation(self, msg, model, info):
        ctx = self.ctx
        vals = {}
        if model is not None:
            for name, (kind, const, meta) in ctx.vars.items():
                if kind == "const":
                    vals[name] = const
                else:
                    vals[name] = core.model_value(kind, const, meta, model)
        ctx.violations.append(
            {
                "msg": msg,
                "values": vals,
                "choices": dict(ctx.choices),
                "info": {k: _plain(v) for k, v in info.items()},
                "trace_len": len(ctx.trace),
            }
        )

    def note(self, x):
        self.log.append(_plain(x))

    def concrete(self, x):
        return core.concretize(x)


def _plain(v):
    if isinstance(v, (int, str, float, bool)) or v is None:
        return v
    if isinstance(v, (list, tuple)):
        return [_plain(x) for x in v]
    if isinstance(v, dict):
        return {str(k): _plain(x) for k, x in v.items()}
    if isinstance(v, (bytes, bytearray)):
        return bytes(v).hex()
    return repr(v)


class ReplaySource:
    """Concrete inputs from a counterexample; `check` failures are collected."""

    symbolic = False
    twin = False

    def __init__(self, values: dict, choices: dict):
        self.values = values
        self.choices = choices
        self.failures: list = []
        self.log: list = []
        self.invalid: list = []  # assumptions violated / missing inputs => replay not applicable

    def _get(self, name, default):
        if name in self.values:
            return self.values[name]
        self.invalid.append(f"missing input {name}")
        return default

    def int(self, name, lo, hi):
        v = self._get(name, lo)
        if not (lo <= v <= hi):
            self.invalid.append(f"{name} out of domain")
        return v

    def byte(self, name):
        return self.int(name, 0, 255)

    def bytes(self, name, n):
        return [self.int(f"{name}[{i}]", 0, 255) for i in range(n)]

    def zint(self, name, lo=None, hi=None):
        return self._get(name, lo if lo is not None else 0)

    def real(self, name, lo=None, hi=None):
        v = self._get(name, "0/1")
        return Fraction(v)

    def bool(self, name):
        return bool(self._get(name, False))

    def choice(self, name, n):
        if name not in self.choices:
            self.invalid.append(f"missing choice {name}")
            return 0
        return self.choices[name]

    def flag(self, name):
        return bool(self.choice(name, 2))

    def assume(self, cond, why=""):
        if not cond:
            self.invalid.append(f"assumption violated {why}")
            raise PathAbort("assume false in replay")

    def check(self, cond, msg, **info):
        if not cond:
            self.failures.append({"msg": msg, "info": {k: _plain(v) for k, v in info.items()}})
            return False
        return True

    def note(self, x):
        self.log.append(_plain(x))

    def concrete(self, x):
        return x
