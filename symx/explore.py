"""Depth-first exploration by re-execution, farmed to a process pool; twins; replay; evidence."""
from __future__ import annotations

import hashlib
import importlib
import inspect
import json
import multiprocessing as mp
import os
import subprocess
import sys
import time
import traceback
import zlib
from dataclasses import dataclass, field

from . import core
from .core import EngineUnsupported, PathAbort
from .source import ReplaySource, SymSource

VERIF = os.path.dirname(os.path.dirname(os.path.abspath(__file__)))
EXIT_OK, EXIT_VIOLATION, EXIT_INCONCLUSIVE = 0, 1, 3
# evidence/ and evidence/replays/; overridden only when several scratch copies are checked side by side
EVDIR = os.environ.get("VERIF_EVIDENCE_DIR") or os.path.join(VERIF, "evidence")


@dataclass
class Harness:
    name: str
    fn: object  # callable(src, **params)
    params: dict = field(default_factory=dict)
    functions: list = field(default_factory=list)  # real-code callables executed (for hashing)
    bounds: dict = field(default_factory=dict)
    stubs: list = field(default_factory=list)
    assumptions: list = field(default_factory=list)
    shape: str = "K"  # K / U / S (DESIGN §3.1)
    max_paths: int = 200000
    max_seconds: float = 120.0
    twin: bool = True  # has an oracle-side seeded error that must be caught
    twin_max_paths: int = 400
    twin_max_seconds: float = 60.0
    solver_timeout_ms: int = 30000
    note: str = ""
    parallel: bool = True
    symbolic_vars: str = ""  # human description of the symbolic variables and their domains
    xcheck: int = -1  # per path: how many of z3's unsat verdicts on assertions are re-decided by cvc5 (-1: policy)
    xcheck_every: int = 1  # ... on one path in `xcheck_every` (chosen by a hash of the decision prefix)
    budget: float = 0.0  # wall seconds this harness may use beyond the tier's default per-harness budget


_REG: dict[str, Harness] = {}


def _new_acc():
    return {
        "paths": 0,
        "aborted": 0,
        "errors": [],
        "unsupported": [],
        "forks": 0,
        "q": {"sat": 0, "unsat": 0, "unknown": 0},
        "solver_s": 0.0,
        "checks": 0,
        "sym_checks": 0,
        "nontrivial": 0,
        "violations": [],
        "samples": [],
        "notes": [],
        "max_depth": 0,
        "x": {"agree": 0, "cvc5_unknown": 0, "cvc5_error": 0, "disagree": 0, "cvc5_s": 0.0},
    }


def _merge(a, b):
    for k in ("paths", "aborted", "forks", "checks", "sym_checks", "nontrivial"):
        a[k] += b[k]
    for k in ("errors", "unsupported", "notes"):
        a[k].extend(b[k])
        del a[k][20:]
    for k, v in b["q"].items():
        a["q"][k] = a["q"].get(k, 0) + v
    a["solver_s"] += b["solver_s"]
    for k, v in b["x"].items():
        a["x"][k] += v
    a["violations"].extend(b["violations"])
    del a["violations"][50:]
    a["samples"].extend(b["samples"])
    del a["samples"][6:]
    a["max_depth"] = max(a["max_depth"], b["max_depth"])


def run_path(h: Harness, prefix, twin: bool, acc, want_sample: bool):
    ctx = core.Ctx(prefix, timeout_ms=h.solver_timeout_ms)
    core.CTX = ctx
    if not twin and h.xcheck > 0 and zlib.crc32(repr(prefix).encode()) % max(1, h.xcheck_every) == 0:
        ctx.xcheck = h.xcheck
    src = SymSource(ctx, twin)
    status = "ok"
    try:
        h.fn(src, **h.params)
    except PathAbort:
        status = "abort"
    except EngineUnsupported as e:
        status = "unsupported"
    except RecursionError as e:
        status = "error"
        acc["errors"].append("RecursionError")
    except (KeyboardInterrupt, SystemExit):
        raise
    except BaseException as e:  # escaping exception: harness error (harnesses catch what they expect)
        status = "error"
        acc["errors"].append(
            f"{type(e).__name__}: {e}\n" + "".join(traceback.format_exc(limit=12))
        )
    finally:
        core.CTX = None
    if ctx.unsupported:
        acc["unsupported"].extend(ctx.unsupported[:3])
        status = "unsupported"
    acc["notes"].extend(ctx.notes[:3])
    if status == "abort":
        acc["aborted"] += 1
    else:
        acc["paths"] += 1
        if (len(ctx.trace) > 0) and (ctx.checks + ctx.sym_checks > 0):
            acc["nontrivial"] += 1
    acc["forks"] += ctx.sym_forks
    for k, v in ctx.q.items():
        acc["q"][k] = acc["q"].get(k, 0) + v
    acc["solver_s"] += ctx.solver_s
    for k, v in ctx.xstats.items():
        acc["x"][k] += v
    acc["checks"] += ctx.checks
    acc["sym_checks"] += ctx.sym_checks
    acc["max_depth"] = max(acc["max_depth"], len(ctx.trace))
    for v in ctx.violations:
        v["harness"] = h.name
        v["twin"] = twin
        acc["violations"].append(v)
    if want_sample and status == "ok":
        core.CTX = ctx
        try:
            m = ctx.get_model()
            vals = {}
            if m is not None:
                for name, (kind, const, meta) in list(ctx.vars.items())[:24]:
                    vals[name] = const if kind == "const" else core.model_value(kind, const, meta, m)
            acc["samples"].append(
                {
                    "harness": h.name,
                    "decisions": len(ctx.trace),
                    "choices": dict(list(ctx.choices.items())[:24]),
                    "model_of_path_condition": vals,
                    "observed": src.log[:12],
                    "assertions_on_path": ctx.checks + ctx.sym_checks,
                }
            )
        except Exception:
            pass
        finally:
            core.CTX = None
    return ctx.alts


def _work(hid, twin, prefixes, max_paths, max_s, want_samples, stop_on_violation):
    h = _REG[hid]
    acc = _new_acc()
    stack = list(prefixes)
    t0 = time.perf_counter()
    n = 0
    while stack and n < max_paths and time.perf_counter() - t0 < max_s:
        p = stack.pop()
        alts = run_path(h, p, twin, acc, want_samples and len(acc["samples"]) < 2)
        stack.extend(alts)
        n += 1
        if stop_on_violation and acc["violations"]:
            break
    return acc, stack


def explore(h: Harness, twin=False, workers=16, max_paths=None, max_seconds=None, pool=None,
            stop_on_violation=False):
    max_paths = max_paths or (h.twin_max_paths if twin else h.max_paths)
    max_seconds = max_seconds or (h.twin_max_seconds if twin else h.max_seconds)
    _REG[h.name] = h
    acc = _new_acc()
    t0 = time.perf_counter()
    stack = [[]]
    capped = False
    if pool is None or not h.parallel or workers <= 1:
        while stack:
            if acc["paths"] + acc["aborted"] >= max_paths or time.perf_counter() - t0 > max_seconds:
                capped = True
                break
            a, stack = _work(h.name, twin, stack, 50, 5.0, True, stop_on_violation)
            _merge(acc, a)
            if stop_on_violation and acc["violations"]:
                break
    else:
        pending = []
        done_paths = 0
        while stack or pending:
            now = time.perf_counter()
            over = (acc["paths"] + acc["aborted"] >= max_paths) or (now - t0 > max_seconds)
            if stop_on_violation and acc["violations"]:
                over = True
            if over and stack:
                capped = not (stop_on_violation and acc["violations"])
                stack = []
            while stack and len(pending) < workers and not over:
                # hand out small chunks while the frontier is narrow, larger when it is wide
                if len(stack) < workers * 2:
                    chunk, budget = [stack.pop()], 8
                else:
                    k = max(1, min(8, len(stack) // (workers * 2)))
                    chunk = [stack.pop() for _ in range(k)]
                    budget = 64
                pending.append(
                    pool.apply_async(
                        _work, (h.name, twin, chunk, budget, 3.0, True, stop_on_violation)
                    )
                )
            if not pending:
                break
            # wait for any
            ready = [p for p in pending if p.ready()]
            if not ready:
                pending[0].wait(0.02)
                continue
            for p in ready:
                pending.remove(p)
                a, rest = p.get()
                _merge(acc, a)
                if not over:
                    stack.extend(rest)
                elif rest:
                    capped = not (stop_on_violation and acc["violations"])
    acc["wall_s"] = time.perf_counter() - t0
    acc["exhaustive"] = (not capped) and not stack and not (stop_on_violation and acc["violations"])
    acc["capped"] = capped
    return acc


# ------------------------------------------------------------------------------------------
# replay


def write_replay(prop, tier, h: Harness, v: dict, n: int) -> str:
    d = os.path.join(EVDIR, "replays")
    os.makedirs(d, exist_ok=True)
    path = os.path.join(d, f"{prop}-{h.name}-{n}.json")
    with open(path, "w") as f:
        json.dump(
            {
                "property": prop,
                "tier": tier,
                "harness": h.name,
                "msg": v["msg"],
                "values": v["values"],
                "choices": v["choices"],
                "info": v.get("info", {}),
            },
            f,
            indent=1,
            sort_keys=True,
        )
    return path


def replay_file(path: str) -> dict:
    """Run the harness on concrete values against the real code (in this process)."""
    with open(path) as f:
        r = json.load(f)
    mod = importlib.import_module(f"harness.{r['property']}")
    hs = {h.name: h for h in mod.harnesses(r.get("tier", "quick"))}
    if r["harness"] not in hs:
        hs = {h.name: h for h in mod.harnesses("thorough")}
    h = hs[r["harness"]]
    src = ReplaySource(r["values"], r["choices"])
    err = None
    try:
        h.fn(src, **h.params)
    except PathAbort:
        pass
    except Exception as e:
        err = f"{type(e).__name__}: {e}"
    return {"failures": src.failures, "invalid": src.invalid, "error": err, "expected": r["msg"]}


def replay_subprocess(path: str, timeout=300) -> dict:
    env = dict(os.environ)
    env["PYTHONPATH"] = VERIF + os.pathsep + os.environ.get("VERIF_REPO", "/repo")
    env["PYTHONHASHSEED"] = "0"
    try:
        p = subprocess.run(
            [sys.executable, "-m", "symx.replay_main", path],
            capture_output=True, text=True, timeout=timeout, cwd=VERIF, env=env,
        )
    except subprocess.TimeoutExpired:
        return {"failures": [], "invalid": ["replay timeout"], "error": "timeout", "hang": True}
    try:
        return json.loads(p.stdout.strip().splitlines()[-1])
    except Exception:
        return {"failures": [], "invalid": ["replay crashed"], "error": p.stderr[-2000:]}


# ------------------------------------------------------------------------------------------
# known findings


def load_known():
    p = os.path.join(VERIF, "known_findings.json")
    if not os.path.exists(p):
        return []
    with open(p) as f:
        return json.load(f).get("findings", [])


def match_known(prop, v, known):
    for k in known:
        if k.get("status") != "known" or k["property"] != prop:
            continue
        if k.get("harness") and k["harness"] != v["harness"]:
            continue
        if k.get("msg_prefix") and not v["msg"].startswith(k["msg_prefix"]):
            continue
        if k.get("msg_contains") and k["msg_contains"] not in v["msg"]:
            continue
        region = k.get("region")
        if region:
            try:
                ok = eval(region, {"__builtins__": {"any": any, "all": all, "len": len, "str": str}},
                          {"v": v["values"], "c": v["choices"],
                                                         "info": v.get("info", {})})
            except Exception:
                ok = False
            if not ok:
                continue
        return k
    return None


# ------------------------------------------------------------------------------------------
# source hashing of the functions that were executed symbolically


def describe_functions(funcs):
    out = []
    for f in funcs:
        try:
            srcs = inspect.getsource(f)
            name = f"{getattr(f, '__module__', '')}.{getattr(f, '__qualname__', getattr(f, '__name__', str(f)))}"
            out.append({"function": name, "sha256": hashlib.sha256(srcs.encode()).hexdigest()[:16],
                        "lines": srcs.count("\n")})
        except Exception as e:
            out.append({"function": repr(f), "sha256": None})
    return out


# ------------------------------------------------------------------------------------------
# check driver


def run_check(prop: str, tier: str, harness_filter=None, workers=None) -> int:
    t_start = time.time()
    seed = int(os.environ.get("VERIF_SEED", "0") or 0)
    workers = workers or int(os.environ.get("VERIF_WORKERS", "16"))
    mod = importlib.import_module(f"harness.{prop}")
    hs = mod.harnesses(tier)
    if harness_filter:
        hs = [h for h in hs if h.name in harness_filter]
    # wall-time budget per harness (the thorough tier is sized by total wall time): a harness that does not
    # finish inside it is reported with exhaustive_within_bounds=false, never as a pass of the larger bound
    cap = float(os.environ.get("VERIF_MAX_SECONDS", 0) or (300 if tier == "thorough" else 0))
    for h in hs:
        if cap:
            # (a harness measured to close within a larger budget may ask for it: Harness.budget)
            h.max_seconds = min(h.max_seconds, max(cap, h.budget))
    for h in hs:
        # second-solver policy: kernels re-decide (up to 8 per path) every unsat verdict with cvc5; unit
        # harnesses re-decide 2 verdicts on a deterministic sample of paths (1/32 quick, 1/4 thorough)
        if h.xcheck < 0:
            if os.environ.get("VERIF_XCHECK"):
                h.xcheck, h.xcheck_every = int(os.environ["VERIF_XCHECK"]), 1
            elif h.shape == "K":
                h.xcheck, h.xcheck_every = 8, 1
            elif h.shape == "U":
                h.xcheck, h.xcheck_every = 2, (32 if tier == "quick" else 4)
            else:
                h.xcheck = 0
        _REG[h.name] = h
    known = load_known()
    rdir = os.path.join(EVDIR, "replays")
    if os.path.isdir(rdir) and not harness_filter:
        for fn in os.listdir(rdir):
            if fn.startswith(prop + "-"):
                os.unlink(os.path.join(rdir, fn))
    prepared = None
    if hasattr(mod, "prepare"):
        prepared = mod.prepare(tier)  # e.g. build the compiled extension from the current sources
    ctx = mp.get_context("fork")
    pool = ctx.Pool(workers) if workers > 1 else None
    per = []
    inconclusive = []
    violations_out = []
    known_hits = []
    nrep = 0
    try:
        for h in hs:
            res = explore(h, twin=False, workers=workers, pool=pool)
            entry = {
                "harness": h.name,
                "shape": h.shape,
                "functions_encoded": describe_functions(h.functions),
                "symbolic_variables": h.symbolic_vars,
                "bounds": h.bounds,
                "stubs": h.stubs,
                "assumptions": h.assumptions,
                "paths": res["paths"],
                "paths_pruned_by_assume": res["aborted"],
                "symbolic_forks": res["forks"],
                "queries": res["q"],
                "solver_s": round(res["solver_s"], 3),
                "assertions_discharged": res["checks"],
                "assertions_symbolic": res["sym_checks"],
                "nontrivial_paths": res["nontrivial"],
                "max_decisions_on_a_path": res["max_depth"],
                "exhaustive_within_bounds": res["exhaustive"],
                "cap_hit": res["capped"],
                "wall_s": round(res["wall_s"], 2),
                "note": h.note,
            }
            if res["errors"]:
                entry["harness_errors"] = res["errors"][:3]
                inconclusive.append(f"{h.name}: harness error: {res['errors'][0][:400]}")
            if res["unsupported"]:
                entry["unsupported"] = res["unsupported"][:3]
                inconclusive.append(f"{h.name}: engine unsupported: {res['unsupported'][0]}")
            if res["q"].get("unknown", 0):
                entry["solver_unknown"] = res["q"]["unknown"]
            if h.xcheck > 0:
                x = dict(res["x"])
                x["policy"] = f"up to {h.xcheck} unsat verdicts per path on 1 path in {h.xcheck_every}"
                x["cvc5_s"] = round(x["cvc5_s"], 2)
                entry["second_solver_cvc5"] = x
            if res["notes"]:
                entry["engine_notes"] = sorted(set(res["notes"]))[:5]
            und = [n for n in res["notes"] if n.startswith("unknown on check")]
            if und:
                inconclusive.append(f"{h.name}: {und[0]}")
            # violations: dedupe by message, replay each
            seen = {}
            for v in res["violations"]:
                key = (v["msg"], json.dumps(v["choices"], sort_keys=True))
                if v["msg"] in [k[0] for k in seen] and len(seen) >= 8:
                    continue
                seen.setdefault(key, v)
            reported_msgs = set()
            # replay one candidate per distinct message (at most 16 messages per harness)
            by_msg = {}
            for v in seen.values():
                by_msg.setdefault(v["msg"], v)
            cand = list(by_msg.values())[:16]
            entry["candidate_violations"] = len(res["violations"])
            confirmed = 0
            for v in cand:
                if v["msg"] in reported_msgs:
                    continue
                nrep += 1
                path = write_replay(prop, tier, h, v, nrep)
                rr = replay_subprocess(path)
                if rr.get("failures") or rr.get("hang"):
                    confirmed += 1
                    reported_msgs.add(v["msg"])
                    k = match_known(prop, v, known)
                    if k is not None:
                        known_hits.append((k, v, path))
                    else:
                        violations_out.append((h.name, v, path))
                else:
                    entry.setdefault("non_reproducing", []).append(
                        {"msg": v["msg"], "replay": path, "replay_result": rr})
            if entry.get("non_reproducing") and not confirmed:
                inconclusive.append(
                    f"{h.name}: counterexample did not reproduce on concrete replay "
                    f"({entry['non_reproducing'][0]['msg']}): engine or stub defect")
            entry["violations_confirmed_by_replay"] = confirmed
            # vacuity twin
            if h.twin:
                tw = explore(h, twin=True, workers=workers, pool=pool, stop_on_violation=True)
                entry["twin"] = {
                    "violated": bool(tw["violations"]),
                    "paths": tw["paths"],
                    "wall_s": round(tw["wall_s"], 2),
                    "example": (tw["violations"][0]["msg"] if tw["violations"] else None),
                }
                if not tw["violations"]:
                    inconclusive.append(f"{h.name}: vacuity twin not violated (assertion unreachable?)")
            per.append(entry)
    finally:
        if pool is not None:
            pool.terminate()
            pool.join()
        if hasattr(mod, "cleanup"):
            mod.cleanup()

    # ---- evidence
    total_paths = sum(e["paths"] for e in per)
    nontrivial = sum(e["nontrivial_paths"] for e in per)
    samples = []
    for h in hs:
        pass
    ev = {
        "property_id": prop,
        "tier": tier,
        "seed": seed,
        "level": "other",
        "coverage": {
            "explanation": (
                "Bounded symbolic execution of the real functions imported from /repo at run time: "
                "inputs are z3 bit-vector/integer/real variables, every branch on them forks the path "
                "after a feasibility query, every assertion is discharged by z3 for all values on the "
                "path (unsat of the negation) or yields a model that is replayed concretely. "
                "Finite-domain 'choices' (fault menus, call programs, cut points) are enumerated "
                "exhaustively by the same depth-first search. Verdicts hold within the bounds listed "
                "per harness and say nothing outside them. z3's unsat verdicts on assertions are re-decided "
                "by cvc5 where a harness lists second_solver_cvc5; a harness that did not close inside its "
                "wall-time budget has exhaustive_within_bounds=false."
            ),
            "evaluations": total_paths,
            "distinct_nontrivial": nontrivial,
            "rule": (
                "one evaluation = one explored path (distinct decision trace) of a harness; it is "
                "non-trivial if it contains at least one symbolic branch or choice and at least one "
                "assertion was evaluated on it; paths are pairwise distinct by construction"
            ),
            "samples": _collect_samples(hs, per),
            "exhaustive": all(e["exhaustive_within_bounds"] for e in per) if per else False,
            "harnesses": per,
            "queries_total": {
                k: sum(e["queries"].get(k, 0) for e in per) for k in ("sat", "unsat", "unknown")
            },
            "solver_s_total": round(sum(e["solver_s"] for e in per), 3),
            "known_finding_hits": [
                {"id": k.get("id"), "what": k.get("what"), "replay": os.path.relpath(p, VERIF)}
                for k, v, p in known_hits
            ],
            "inconclusive": inconclusive,
            "trusted_base": ["symx engine (differentially tested against CPython, see selftest)",
                             "z3 5.1.0"],
        },
        "assumptions": sorted({a for e in per for a in e["assumptions"]} |
                              {f"stub: {s}" for e in per for s in e["stubs"]}),
        "wall_s": round(time.time() - t_start, 2),
        "violations": len(violations_out),
    }
    # the engine self-test is not a property: its report does not go to evidence/
    edir = os.path.join(VERIF, "selftest") if prop == "ENGINE" else EVDIR
    os.makedirs(edir, exist_ok=True)
    with open(os.path.join(edir, f"{prop}.json"), "w") as f:
        json.dump(ev, f, indent=1, default=str)

    printed = set()
    for k, v, p in known_hits:
        line = f"KNOWN-FINDING: property={prop} {k.get('id','')} {k.get('what','')}"
        if line not in printed:
            printed.add(line)
            print(line)
    for e in per:
        tw = e.get("twin", {})
        print(
            f"[{prop}/{e['harness']}] paths={e['paths']} pruned={e['paths_pruned_by_assume']} "
            f"queries={sum(e['queries'].values())} unknown={e['queries'].get('unknown',0)} "
            f"solver={e['solver_s']}s wall={e['wall_s']}s exhaustive={e['exhaustive_within_bounds']} "
            f"asserts={e['assertions_discharged']}/{e['assertions_symbolic']}sym "
            f"twin={'n/a' if not tw else ('caught' if tw['violated'] else 'MISSED')}"
            + (" cvc5[agree={agree} unknown={cvc5_unknown} error={cvc5_error} disagree={disagree} {cvc5_s}s]".format(
                **e["second_solver_cvc5"]) if e.get("second_solver_cvc5", {}).get("cvc5_s") else "")
        )
    if violations_out:
        for name, v, p in violations_out:
            print(f"  violation in {name}: {v['msg']}")
            print(f"VIOLATION property={prop} replay={p}")
        return EXIT_VIOLATION
    if inconclusive:
        for s in inconclusive:
            print(f"INCONCLUSIVE: {s}")
        return EXIT_INCONCLUSIVE
    return EXIT_OK


def _collect_samples(hs, per):
    out = []
    for h in hs:
        s = _SAMPLES.get(h.name)
        if s:
            out.extend(s[:2])
    if not out:
        out = [{"harness": e["harness"], "bounds": e["bounds"]} for e in per]
    return out[:12]


_SAMPLES: dict[str, list] = {}

_orig_explore = explore


def explore(h, twin=False, **kw):  # noqa: F811  (wrap to keep samples of the main run)
    res = _orig_explore(h, twin=twin, **kw)
    if not twin:
        _SAMPLES[h.name] = res["samples"]
    return res
