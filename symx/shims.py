"""Environment stubs for the C boundary: byte containers whose elements may be symbolic, and
`struct` / `io.BytesIO` / `array` look-alikes defined by the documented semantics of the originals.
With concrete contents they behave like the originals (so the same harness is its own replay)."""
from __future__ import annotations

import struct as _struct

import z3

from . import core
from .core import SymBool, SymInt, concretize, unsupported

error = _struct.error


def _is_sym(x):
    return isinstance(x, (SymInt, core.ZInt))


def _idx(i, n, what="index"):
    """Concrete index from possibly symbolic i (forks on feasible values within [-n, n))."""
    if isinstance(i, int):
        return i
    if isinstance(i, SymInt):
        # out-of-range on either side is one path each; in-range values are enumerated
        if i >= n:
            return n  # caller raises IndexError / clamps
        if i < -n:
            return -n - 1
        return concretize(i, limit=4096)
    return concretize(i)


class SymBuf:
    """bytes/bytearray look-alike; items are ints in 0..255 or SymInt."""

    __slots__ = ("b", "mutable")

    def __init__(self, data=(), mutable=True):
        if isinstance(data, int):
            self.b = [0] * data
        elif isinstance(data, SymBuf):
            self.b = list(data.b)
        elif isinstance(data, (bytes, bytearray, memoryview)):
            self.b = list(bytes(data))
        elif isinstance(data, SymInt):
            self.b = [0] * concretize(data, 4096)
        else:
            self.b = list(data)
        self.mutable = mutable

    # ---- basic protocol
    def __len__(self):
        return len(self.b)

    def __iter__(self):
        return iter(self.b)

    def is_concrete(self):
        return all(isinstance(x, int) for x in self.b)

    def to_bytes(self):
        if not self.is_concrete():
            unsupported("symbolic bytes forced to concrete bytes")
        return bytes(self.b)

    def _slice(self, s):
        n = len(self.b)
        start, stop, step = s.start, s.stop, s.step
        if step not in (None, 1):
            return SymBuf(self.b[slice(_c(start), _c(stop), step)], self.mutable)
        if isinstance(start, SymInt):
            start = _clamp(start, n)
        if isinstance(stop, SymInt):
            stop = _clamp(stop, n)
        return SymBuf(self.b[start:stop], self.mutable)

    def __getitem__(self, i):
        if isinstance(i, slice):
            return self._slice(i)
        n = len(self.b)
        j = _idx(i, n)
        if j >= n or j < -n:
            raise IndexError("index out of range")
        return self.b[j]

    def __setitem__(self, i, v):
        if isinstance(i, slice):
            start, stop = i.start, i.stop
            n = len(self.b)
            if isinstance(start, SymInt):
                start = _clamp(start, n)
            if isinstance(stop, SymInt):
                stop = _clamp(stop, n)
            vs = list(v.b) if isinstance(v, SymBuf) else list(v)
            self.b[start:stop] = vs
            return
        n = len(self.b)
        j = _idx(i, n)
        if j >= n or j < -n:
            raise IndexError("index out of range")
        self.b[j] = _byte(v)

    def append(self, v):
        self.b.append(_byte(v))

    def extend(self, vs):
        if isinstance(vs, SymBuf):
            self.b.extend(vs.b)
        else:
            self.b.extend(list(vs))

    def __iadd__(self, o):
        if self.mutable:
            self.extend(o)
            return self
        return self + o

    def __add__(self, o):
        if isinstance(o, SymBuf):
            return SymBuf(self.b + o.b, self.mutable)
        if isinstance(o, (bytes, bytearray, memoryview)):
            return SymBuf(self.b + list(bytes(o)), self.mutable)
        return NotImplemented

    def __radd__(self, o):
        if isinstance(o, (bytes, bytearray, memoryview)):
            return SymBuf(list(bytes(o)) + self.b, self.mutable)
        return NotImplemented

    def __eq__(self, o):
        if isinstance(o, (bytes, bytearray, memoryview)):
            o = list(bytes(o))
        elif isinstance(o, SymBuf):
            o = o.b
        else:
            return False
        if len(o) != len(self.b):
            return False
        return core.s_and(*[a == b for a, b in zip(self.b, o)])

    def __ne__(self, o):
        return core.s_not(self.__eq__(o))

    __hash__ = None

    def __bool__(self):
        return len(self.b) > 0

    def tobytes(self):
        return SymBuf(self.b, False)

    def decode(self, enc="utf-8", errors="strict"):
        if self.is_concrete():
            return bytes(self.b).decode(enc, errors)
        return SymStr(self)

    def hex(self):
        return "".join(f"{x:02x}" if isinstance(x, int) else "??" for x in self.b)

    def __repr__(self):
        return f"<symbuf {self.hex()}>"

    def __bytes__(self):
        return self.to_bytes()

    def release(self):
        pass

    def clear(self):
        self.b.clear()

    def __delitem__(self, i):
        del self.b[i]


class SymStr:
    """utf-8 decoding of symbolic bytes: opaque, compares by the underlying bytes."""

    def __init__(self, buf):
        self.buf = buf

    def encode(self, enc="utf-8"):
        return SymBuf(self.buf.b, False)

    def __eq__(self, o):
        if isinstance(o, SymStr):
            return self.buf == o.buf
        if isinstance(o, str):
            return self.buf == o.encode()
        return False

    __hash__ = None

    def __repr__(self):
        return f"<symstr {self.buf.hex()}>"


def _c(x):
    return concretize(x) if _is_sym(x) else x


def _clamp(x, n):
    """Python slice-bound semantics for a symbolic bound on a sequence of length n (non-negative
    results); forks over out-of-range sides, enumerates in-range values."""
    if x >= n:
        return n
    if x < 0:
        if x < -n:
            return 0
        return n + concretize(x, 4096)
    return concretize(x, 4096)


def _byte(v):
    if isinstance(v, SymInt):
        if v.lo < 0 or v.hi > 255:
            if (v < 0) or (v > 255):
                raise ValueError("byte must be in range(0, 256)")
        return v
    if isinstance(v, int):
        if not 0 <= v <= 255:
            raise ValueError("byte must be in range(0, 256)")
        return v
    raise TypeError("an integer is required")


def sym_bytes(x=b"", *a):
    """stand-in for bytes()/bytearray() constructors in modules under test"""
    if isinstance(x, SymBuf):
        return SymBuf(x.b, False)
    return bytes(x, *a)


def sym_bytearray(x=b"", *a):
    if isinstance(x, SymBuf):
        return SymBuf(x.b, True)
    if isinstance(x, SymInt):
        return SymBuf(x, True)
    return SymBuf(bytearray(x, *a), True)


def sym_memoryview(x):
    if isinstance(x, SymBuf):
        return x
    return memoryview(x)


def sym_len(x):
    return len(x)


# ------------------------------------------------------------------------------------------
# struct

_FMT = {"b": (1, True), "B": (1, False), "h": (2, True), "H": (2, False), "i": (4, True),
        "I": (4, False), "q": (8, True), "Q": (8, False), "?": (1, False)}


def _parse(fmt):
    f = fmt
    if f and f[0] in "<>!=@":
        order = f[0]
        f = f[1:]
    else:
        order = ">"  # only big-endian / single byte formats are used by the library
    out = []
    num = ""
    for ch in f:
        if ch.isdigit():
            num += ch
            continue
        n = int(num) if num else 1
        num = ""
        if ch == "s":
            out.append(("s", n))
        elif ch in _FMT:
            out.extend([(ch, 1)] * n)
        elif ch == "x":
            out.extend([("x", 1)] * n)
        else:
            unsupported(f"struct format char {ch!r}")
    if order == "<":
        unsupported("little-endian struct format")
    return out


def _size(items):
    n = 0
    for ch, k in items:
        n += k if ch in ("s", "x") else _FMT[ch][0]
    return n


def _pack_int(ch, v):
    nbytes, signed = _FMT[ch]
    if ch == "?":
        if isinstance(v, SymBool):
            v = core.s_ite(v, 1, 0)
        elif not _is_sym(v):
            v = 1 if v else 0
    bits = 8 * nbytes
    lo, hi = (-(1 << (bits - 1)), (1 << (bits - 1)) - 1) if signed else (0, (1 << bits) - 1)
    if isinstance(v, SymInt):
        if v.lo < lo or v.hi > hi:
            if (v < lo) or (v > hi):
                raise error(f"'{ch}' format requires {lo} <= number <= {hi}")
        e = v.trunc(bits)
        out = []
        for k in range(nbytes - 1, -1, -1):
            out.append(SymInt("leaf", (z3.Extract(8 * k + 7, 8 * k, e), False), 0, 255))
        return out
    if isinstance(v, core.ZInt):
        unsupported("struct.pack of an LIA symbolic int")
    if isinstance(v, bool):
        v = int(v)
    if not isinstance(v, int):
        raise error("required argument is not an integer")
    if not lo <= v <= hi:
        raise error(f"'{ch}' format requires {lo} <= number <= {hi}")
    return list(v.to_bytes(nbytes, "big", signed=signed))


def _unpack_int(ch, bs):
    nbytes, signed = _FMT[ch]
    if all(isinstance(x, int) for x in bs):
        v = int.from_bytes(bytes(bs), "big", signed=signed)
        return bool(v) if ch == "?" else v
    es = [x.trunc(8) if isinstance(x, SymInt) else z3.BitVecVal(x, 8) for x in bs]
    e = es[0] if len(es) == 1 else z3.Concat(*es)
    bits = 8 * nbytes
    lo, hi = (-(1 << (bits - 1)), (1 << (bits - 1)) - 1) if signed else (0, (1 << bits) - 1)
    v = SymInt("leaf", (e, signed), lo, hi)
    if ch == "?":
        return v != 0
    return v


class Struct:
    def __init__(self, fmt):
        self.format = fmt
        self._items = _parse(fmt)
        self.size = _size(self._items)

    def pack(self, *vals):
        out = []
        vi = 0
        for ch, k in self._items:
            if ch == "x":
                out.extend([0] * k)
                continue
            if vi >= len(vals):
                raise error("pack expected more items")
            v = vals[vi]
            vi += 1
            if ch == "s":
                b = list(v.b) if isinstance(v, SymBuf) else list(bytes(v))
                b = (b + [0] * k)[:k]
                out.extend(b)
            else:
                out.extend(_pack_int(ch, v))
        if vi != len(vals):
            raise error(f"pack expected {vi} items for packing (got {len(vals)})")
        if all(isinstance(x, int) for x in out):
            return bytes(out)
        return SymBuf(out, False)

    def pack_into(self, buf, offset, *vals):
        data = self.pack(*vals)
        offset = _c(offset)
        if offset < 0:
            offset += len(buf)
        if offset < 0 or offset + self.size > len(buf):
            raise error(f"pack_into requires a buffer of at least {offset + self.size} bytes")
        d = list(data.b) if isinstance(data, SymBuf) else list(data)
        if isinstance(buf, SymBuf):
            buf.b[offset:offset + self.size] = d
        else:
            buf[offset:offset + self.size] = bytes(d)

    def unpack_from(self, buf, offset=0):
        n = len(buf)
        if _is_sym(offset):
            # decide the range check symbolically (one path per failing side), enumerate only in-range offsets
            if offset < 0:
                offset = offset + n
                if offset < 0:
                    raise error(f"offset {n} out of range")
            if offset > n - self.size:
                raise error(f"unpack_from requires a buffer of at least {self.size} bytes for unpacking "
                            f"{self.size} bytes at a symbolic offset (actual buffer size is {n})")
            offset = _c(offset)
        if offset < 0:
            offset += n
        if offset < 0 or n - offset < self.size:
            raise error(f"unpack_from requires a buffer of at least {self.size} bytes for unpacking "
                        f"{self.size} bytes at offset {offset} (actual buffer size is {n})")
        bs = buf.b if isinstance(buf, SymBuf) else list(bytes(buf))
        out = []
        p = offset
        for ch, k in self._items:
            if ch == "x":
                p += k
            elif ch == "s":
                seg = bs[p:p + k]
                out.append(bytes(seg) if all(isinstance(x, int) for x in seg) else SymBuf(seg, False))
                p += k
            else:
                nb = _FMT[ch][0]
                out.append(_unpack_int(ch, bs[p:p + nb]))
                p += nb
        return tuple(out)

    def unpack(self, data):
        if len(data) != self.size:
            raise error(f"unpack requires a buffer of {self.size} bytes")
        return self.unpack_from(data, 0)

    def __repr__(self):
        return f"SymStruct({self.format!r})"


def pack(fmt, *vals):
    return Struct(fmt).pack(*vals)


def unpack(fmt, data):
    return Struct(fmt).unpack(data)


def unpack_from(fmt, buf, offset=0):
    return Struct(fmt).unpack_from(buf, offset)


def pack_into(fmt, buf, offset, *vals):
    return Struct(fmt).pack_into(buf, offset, *vals)


def calcsize(fmt):
    return Struct(fmt).size


class _StructModule:
    Struct = Struct
    error = error
    pack = staticmethod(pack)
    unpack = staticmethod(unpack)
    unpack_from = staticmethod(unpack_from)
    pack_into = staticmethod(pack_into)
    calcsize = staticmethod(calcsize)


struct_module = _StructModule()


# ------------------------------------------------------------------------------------------
# io.BytesIO


class SymReader:
    """io.BytesIO look-alike (read side + write)."""

    def __init__(self, data=b""):
        self.buf = data if isinstance(data, SymBuf) else SymBuf(data, True)
        self.pos = 0
        self.reads = []  # (pos, n) observations for "nothing else is read"

    def read(self, n=-1):
        ln = len(self.buf)
        rem = max(ln - self.pos, 0)
        if n is None:
            n = -1
        if isinstance(n, SymInt):
            if n < 0:
                k = rem
            elif n >= rem:
                k = rem
            else:
                k = concretize(n, 4096)
        elif isinstance(n, core.ZInt):
            if n < 0:
                k = rem
            elif n >= rem:
                k = rem
            else:
                k = concretize(n, 4096)
        else:
            k = rem if n < 0 else min(n, rem)
        seg = self.buf.b[self.pos:self.pos + k]
        self.reads.append((self.pos, k))
        self.pos += k
        if all(isinstance(x, int) for x in seg):
            return bytes(seg)
        return SymBuf(seg, False)

    def write(self, data):
        d = list(data.b) if isinstance(data, SymBuf) else list(bytes(data))
        self.buf.b[self.pos:self.pos + len(d)] = d
        self.pos += len(d)
        return len(d)

    def tell(self):
        return self.pos

    def seek(self, pos, whence=0):
        pos = _c(pos)
        if whence == 0:
            self.pos = pos
        elif whence == 1:
            self.pos += pos
        else:
            self.pos = len(self.buf) + pos
        return self.pos

    def getvalue(self):
        if self.buf.is_concrete():
            return bytes(self.buf.b)
        return SymBuf(self.buf.b, False)

    def getbuffer(self):
        return self.buf

    def remaining(self):
        return len(self.buf) - self.pos

    def close(self):
        pass


class SymArrayModule:
    """`array` look-alike for _crc32c.crc_update (array.array('B', data))."""

    class array(list):
        itemsize = 1

        def __init__(self, typecode="B", data=()):
            list.__init__(self, data.b if isinstance(data, SymBuf) else data)


class SymTable:
    """Constant table indexable by a symbolic int (lookup through a z3 array)."""

    def __init__(self, values, bits_in, bits_out):
        self.values = list(values)
        self.bits_in, self.bits_out = bits_in, bits_out
        arr = z3.K(z3.BitVecSort(bits_in), z3.BitVecVal(0, bits_out))
        for i, v in enumerate(self.values):
            arr = z3.Store(arr, z3.BitVecVal(i, bits_in), z3.BitVecVal(v, bits_out))
        self.arr = arr

    def __len__(self):
        return len(self.values)

    def __getitem__(self, i):
        if isinstance(i, SymInt):
            if i.lo < 0 or i.hi >= len(self.values):
                if (i < 0) or (i >= len(self.values)):
                    raise IndexError("tuple index out of range")
            e = z3.Select(self.arr, i.trunc(self.bits_in))
            return SymInt("leaf", (e, False), 0, max(self.values))
        return self.values[i]
