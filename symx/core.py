"""symx core: path context, symbolic booleans, exact Python ints over z3 bit-vectors (SymInt),
linear integers (ZInt) and exact rationals (SymReal).

The code under test is the *real* code imported from /repo; these proxy values flow through it.
Forking is by re-execution (see explore.py): SymBool.__bool__ is the only fork point.
"""
from __future__ import annotations

import time
from fractions import Fraction

import z3

# ------------------------------------------------------------------------------------------
# engine state


class EngineUnsupported(Exception):
    """An operation the engine cannot model exactly.  Also latched in CTX/UNSUPPORTED because
    library code may swallow exceptions."""


class PathAbort(BaseException):
    """Raised only from harness-level calls (assume/check), never from inside proxies."""


UNSUPPORTED: list[str] = []  # process-wide latch; a non-empty list makes the check inconclusive
CTX: "Ctx | None" = None


def unsupported(msg: str):
    if len(UNSUPPORTED) < 50:
        UNSUPPORTED.append(msg)
    if CTX is not None:
        CTX.unsupported.append(msg)
    raise EngineUnsupported(msg)


XCHECK_TLIMIT_MS = 15000


def cvc5_verdict(smt2_text: str, tlimit_ms: int = None) -> str:
    """Decide an SMT-LIB2 benchmark (as printed by z3) with the cvc5 wheel: sat / unsat / unknown."""
    import cvc5

    # z3 prints its internal "divisor known to be non-zero" operators; they coincide with the standard ones there
    for op in ("bvsdiv", "bvudiv", "bvsrem", "bvurem", "bvsmod"):
        smt2_text = smt2_text.replace(op + "_i", op)
    slv = cvc5.Solver()
    slv.setOption("tlimit-per", str(tlimit_ms or XCHECK_TLIMIT_MS))
    slv.setLogic("ALL")
    p = cvc5.InputParser(slv)
    p.setStringInput(cvc5.InputLanguage.SMT_LIB_2_6, smt2_text, "q")
    sm = p.getSymbolManager()
    res = "unknown"
    while True:
        cmd = p.nextCommand()
        if cmd.isNull():
            break
        out = cmd.invoke(slv, sm).strip()
        if out in ("sat", "unsat", "unknown"):
            res = out
    return res


class Ctx:
    """One path.  `prefix` is the list of decisions to follow, `trace` the decisions taken."""

    def __init__(self, prefix=(), timeout_ms=20000):
        self.solver = z3.Solver()
        self.solver.set("timeout", timeout_ms)
        self.timeout_ms = timeout_ms
        self.prefix = list(prefix)
        self.trace: list = []
        self.alts: list[list] = []
        self.model = None  # a model of the current path condition, or None if stale
        self.vars: dict[str, tuple] = {}  # name -> (kind, z3 const, meta)
        self.choices: dict[str, int] = {}
        self.q = {"sat": 0, "unsat": 0, "unknown": 0}
        self.solver_s = 0.0
        self.checks = 0  # assertions discharged (unsat of negation, or concrete True)
        self.sym_checks = 0
        self.assumes = 0
        self.sym_forks = 0
        self.violations: list[dict] = []
        self.unsupported: list[str] = []
        self.notes: list[str] = []
        self.nondeterminism = False
        self.xcheck = 0  # how many more unsat verdicts of this path are re-decided by cvc5
        self.xstats = {"agree": 0, "cvc5_unknown": 0, "cvc5_error": 0, "disagree": 0, "cvc5_s": 0.0}

    def cross_check_unsat(self, negated, msg):
        """z3 said `path condition AND negated` is unsat; ask cvc5 (independent code base) the same."""
        if self.xcheck <= 0:
            return
        self.xcheck -= 1
        s2 = z3.Solver()
        s2.add(self.solver.assertions())
        s2.add(negated)
        t = time.perf_counter()
        try:
            r = cvc5_verdict(s2.to_smt2())
        except Exception as e:  # parse problem on a z3-specific operator etc.
            r = "error"
            self.notes.append(f"cvc5 could not take the query for '{msg}': {e}"[:300])
        self.xstats["cvc5_s"] += time.perf_counter() - t
        if r == "unsat":
            self.xstats["agree"] += 1
        elif r == "sat":
            self.xstats["disagree"] += 1
            self.notes.append(f"unknown on check: solvers disagree (z3 unsat, cvc5 sat) on '{msg}'")
        elif r == "error":
            self.xstats["cvc5_error"] += 1
        else:
            self.xstats["cvc5_unknown"] += 1

    # -- solver helpers
    def query(self, *extra):
        t = time.perf_counter()
        r = self.solver.check(*extra)
        self.solver_s += time.perf_counter() - t
        s = str(r)
        self.q[s] = self.q.get(s, 0) + 1
        return s

    def query_t(self, timeout_ms, *extra):
        self.solver.set("timeout", min(timeout_ms, self.timeout_ms))
        try:
            return self.query(*extra)
        finally:
            self.solver.set("timeout", self.timeout_ms)

    def add(self, e):
        self.solver.add(e)

    def get_model(self):
        """A model of the current path condition (None if unsat/unknown)."""
        if self.model is None:
            r = self.query()
            if r == "sat":
                self.model = self.solver.model()
        return self.model

    # -- fork point
    def decide(self, e) -> bool:
        i = len(self.trace)
        if i < len(self.prefix):
            d = self.prefix[i]
            if not isinstance(d, bool):
                self.nondeterminism = True
                unsupported("replay divergence: expected choice, got branch")
            self.trace.append(d)
            self.add(e if d else z3.Not(e))
            if self.model is not None:
                v = self.model.eval(e, model_completion=True)
                if not (z3.is_true(v) if d else z3.is_false(v)):
                    self.model = None
            return d
        # frontier: the side the current model takes is feasible for free
        self.sym_forks += 1
        m = self.get_model()
        if m is None:
            # path condition itself unknown/unsat: treat as True side, flag
            self.notes.append("path condition not sat at a fork")
            d0 = True
        else:
            v = m.eval(e, model_completion=True)
            d0 = z3.is_true(v)
            if not d0 and not z3.is_false(v):
                # could not evaluate: ask the solver
                d0 = self.query(e) == "sat"
                self.model = None
        other = z3.Not(e) if d0 else e
        r = self.query(other)
        if r != "unsat":  # sat, or unknown (explored, flagged by the q counter)
            self.alts.append(self.trace + [not d0])
        self.trace.append(d0)
        self.add(e if d0 else z3.Not(e))
        return d0

    def choose(self, name: str, n: int) -> int:
        """Finite-domain choice in range(n), enumerated exhaustively by the DFS."""
        if n <= 0:
            unsupported(f"choice {name} with empty domain")
        i = len(self.trace)
        if i < len(self.prefix):
            d = self.prefix[i]
            if isinstance(d, bool) or not (0 <= d < n):
                self.nondeterminism = True
                unsupported(f"replay divergence at choice {name}")
            v = d
        else:
            v = 0
            for k in range(n - 1, 0, -1):
                self.alts.append(self.trace + [k])
        self.trace.append(v)
        if name in self.choices:
            unsupported(f"duplicate choice name {name}")
        self.choices[name] = v
        return v


# ------------------------------------------------------------------------------------------
# SymBool


class SymBool:
    __slots__ = ("e",)

    def __init__(self, e):
        self.e = e

    def __bool__(self):
        e = z3.simplify(self.e)
        if z3.is_true(e):
            return True
        if z3.is_false(e):
            return False
        return CTX.decide(e)

    def __and__(self, o):
        return SymBool(z3.And(self.e, _bexpr(o)))

    __rand__ = __and__

    def __or__(self, o):
        return SymBool(z3.Or(self.e, _bexpr(o)))

    __ror__ = __or__

    def __invert__(self):
        return SymBool(z3.Not(self.e))

    def __xor__(self, o):
        return SymBool(z3.Xor(self.e, _bexpr(o)))

    __rxor__ = __xor__

    def __eq__(self, o):
        if isinstance(o, (bool, SymBool)):
            return SymBool(self.e == _bexpr(o))
        return NotImplemented

    def __ne__(self, o):
        if isinstance(o, (bool, SymBool)):
            return SymBool(self.e != _bexpr(o))
        return NotImplemented

    __hash__ = None

    def __repr__(self):
        return "<symbool>"


def _bexpr(o):
    if isinstance(o, SymBool):
        return o.e
    if isinstance(o, bool):
        return z3.BoolVal(o)
    unsupported(f"bool op with {type(o).__name__}")


def s_and(*xs):
    """Conjunction without forking."""
    es = []
    for x in xs:
        if isinstance(x, SymBool):
            es.append(x.e)
        elif not x:
            return False
    if not es:
        return True
    return SymBool(z3.And(*es))


def s_or(*xs):
    es = []
    for x in xs:
        if isinstance(x, SymBool):
            es.append(x.e)
        elif x:
            return True
    if not es:
        return False
    return SymBool(z3.Or(*es))


def s_not(x):
    if isinstance(x, SymBool):
        return SymBool(z3.Not(x.e))
    return not x


def s_implies(a, b):
    return s_or(s_not(a), b)


def s_ite(c, a, b):
    """If-then-else on symbolic ints without forking (same theory both sides)."""
    if not isinstance(c, SymBool):
        return a if c else b
    a, b = lift(a), lift(b)
    if isinstance(a, SymInt) and isinstance(b, SymInt):
        return SymInt("ite", (c.e, a, b), min(a.lo, b.lo), max(a.hi, b.hi))
    if isinstance(a, ZInt) or isinstance(b, ZInt):
        return ZInt(z3.If(c.e, _zexpr(a), _zexpr(b)))
    unsupported("s_ite operands")


# ------------------------------------------------------------------------------------------
# SymInt: exact Python int over bit-vectors of dynamic width


def _sw(lo: int, hi: int) -> int:
    a = hi.bit_length() if hi >= 0 else (-hi - 1).bit_length()
    b = lo.bit_length() if lo >= 0 else (-lo - 1).bit_length()
    return max(a, b) + 1


_MAXDEPTH = 24


class SymInt:
    __slots__ = ("op", "args", "lo", "hi", "_t", "depth", "__weakref__")

    def __init__(self, op, args, lo, hi):
        self.op = op
        self.args = args
        self.lo = lo
        self.hi = hi
        self._t = {}
        d = 0
        for a in args:
            if isinstance(a, SymInt) and a.depth >= d:
                d = a.depth + 1
        self.depth = d
        if d > _MAXDEPTH:
            self._flatten()

    def _flatten(self):
        w = self.w
        if self.lo >= 0:
            vb = max(w - 1, 1)
            e = self.trunc(vb)
            self.op, self.args = "leaf", (e, False)
        else:
            e = self.trunc(w)
            self.op, self.args = "leaf", (e, True)
        self._t = {}
        self.depth = 0

    @property
    def w(self):
        return _sw(self.lo, self.hi)

    @staticmethod
    def const(v):
        return SymInt("const", (v,), v, v)

    # low k bits of the value (two's complement), as a k-bit BV
    def trunc(self, k: int):
        r = self._t.get(k)
        if r is not None:
            return r
        w = self.w
        if self.op != "const" and k > w:
            if self.lo >= 0:
                vb = max(w - 1, 1)
                r = z3.ZeroExt(k - vb, self.trunc(vb))
            else:
                r = z3.SignExt(k - w, self.trunc(w))
        else:
            r = self._trunc_raw(k)
        self._t[k] = r
        return r

    def _trunc_raw(self, k):
        op, a = self.op, self.args
        if op == "const":
            return z3.BitVecVal(a[0] % (1 << k), k)
        if op == "leaf":
            e, signed = a
            n = e.size()
            if k < n:
                return z3.Extract(k - 1, 0, e)
            if k == n:
                return e
            return z3.SignExt(k - n, e) if signed else z3.ZeroExt(k - n, e)
        if op == "add":
            return a[0].trunc(k) + a[1].trunc(k)
        if op == "sub":
            return a[0].trunc(k) - a[1].trunc(k)
        if op == "mul":
            return a[0].trunc(k) * a[1].trunc(k)
        if op == "and":
            return a[0].trunc(k) & a[1].trunc(k)
        if op == "or":
            return a[0].trunc(k) | a[1].trunc(k)
        if op == "xor":
            return a[0].trunc(k) ^ a[1].trunc(k)
        if op == "neg":
            return -a[0].trunc(k)
        if op == "inv":
            return ~a[0].trunc(k)
        if op == "shl":
            c = a[1]
            if c == 0:
                return a[0].trunc(k)
            if c >= k:
                return z3.BitVecVal(0, k)
            return z3.Concat(a[0].trunc(k - c), z3.BitVecVal(0, c))
        if op == "shr":
            c = a[1]
            if c == 0:
                return a[0].trunc(k)
            return z3.Extract(k + c - 1, c, a[0].trunc(k + c))
        if op == "ite":
            return z3.If(a[0], a[1].trunc(k), a[2].trunc(k))
        raise AssertionError(op)

    def bv(self, w=None):
        """exact signed value at width w >= self.w"""
        if w is None:
            w = self.w
        return self.trunc(w)

    # ---- arithmetic
    def __add__(self, o):
        return _bin("add", self, o)

    def __radd__(self, o):
        return _bin("add", o, self)

    def __sub__(self, o):
        return _bin("sub", self, o)

    def __rsub__(self, o):
        return _bin("sub", o, self)

    def __mul__(self, o):
        return _bin("mul", self, o)

    def __rmul__(self, o):
        return _bin("mul", o, self)

    def __and__(self, o):
        return _bin("and", self, o)

    def __rand__(self, o):
        return _bin("and", o, self)

    def __or__(self, o):
        return _bin("or", self, o)

    def __ror__(self, o):
        return _bin("or", o, self)

    def __xor__(self, o):
        return _bin("xor", self, o)

    def __rxor__(self, o):
        return _bin("xor", o, self)

    def __lshift__(self, o):
        return _bin("lshift", self, o)

    def __rlshift__(self, o):
        return _bin("lshift", o, self)

    def __rshift__(self, o):
        return _bin("rshift", self, o)

    def __rrshift__(self, o):
        return _bin("rshift", o, self)

    def __floordiv__(self, o):
        return _bin("floordiv", self, o)

    def __rfloordiv__(self, o):
        return _bin("floordiv", o, self)

    def __mod__(self, o):
        return _bin("mod", self, o)

    def __rmod__(self, o):
        return _bin("mod", o, self)

    def __divmod__(self, o):
        return (_bin("floordiv", self, o), _bin("mod", self, o))

    def __neg__(self):
        return SymInt("neg", (self,), -self.hi, -self.lo)

    def __pos__(self):
        return self

    def __invert__(self):
        return SymInt("inv", (self,), ~self.hi, ~self.lo)

    def __abs__(self):
        if self.lo >= 0:
            return self
        if self.hi < 0:
            return -self
        return s_ite(self < 0, -self, self)

    def __truediv__(self, o):
        unsupported("true division of symbolic int (float)")

    __rtruediv__ = __truediv__

    def __pow__(self, o, m=None):
        unsupported("pow of symbolic int")

    __rpow__ = __pow__

    def __float__(self):
        unsupported("float(symbolic int)")

    # ---- comparisons
    def __lt__(self, o):
        return _cmp("lt", self, o)

    def __le__(self, o):
        return _cmp("le", self, o)

    def __gt__(self, o):
        return _cmp("gt", self, o)

    def __ge__(self, o):
        return _cmp("ge", self, o)

    def __eq__(self, o):
        return _cmp("eq", self, o)

    def __ne__(self, o):
        return _cmp("ne", self, o)

    def __hash__(self):
        # dict/set key: forces the value (forks over the feasible values of a small domain)
        return hash(concretize(self))

    def __bool__(self):
        return bool(_cmp("ne", self, 0))

    def __index__(self):
        return concretize(self)

    __int__ = __index__

    def __repr__(self):
        return f"<sym[{self.lo},{self.hi}]>"

    __str__ = __repr__

    def __format__(self, spec):
        return "<sym>"


CONCRETIZE_BUDGET = 24


def concretize(x, limit=512):
    """Force a symbolic int to a concrete value by forking (used when the interpreter insists on a
    machine int: indexing, range, hashing).  Every branch expression is a deterministic function of
    the path (binary search on fixed pivots), which re-execution needs; infeasible halves are pruned
    by the solver, so the number of paths is the number of feasible values."""
    if isinstance(x, int):
        return x
    if CTX is not None and not (isinstance(x, SymInt) and x.lo == x.hi):
        # a C-level consumer (int.from_bytes, bytes(), struct...) that forces value after value turns
        # the run into an enumeration of the input space: give up instead of exploding
        CTX.concretizations = getattr(CTX, "concretizations", 0) + 1
        if CTX.concretizations > CONCRETIZE_BUDGET:
            unsupported(f"more than {CONCRETIZE_BUDGET} symbolic values forced to concrete on one path "
                        "(the code hands symbolic data to a C-level function)")
    if isinstance(x, SymInt):
        lo, hi = x.lo, x.hi
        if hi - lo > (1 << 48):
            unsupported(f"__index__ on symbolic int with domain [{lo},{hi}]")
        while lo < hi:
            mid = (lo + hi) // 2
            if x <= mid:
                hi = mid
            else:
                lo = mid + 1
        return lo
    if isinstance(x, ZInt):
        neg = bool(x < 0)
        y = -x if neg else x
        k = 0
        while not (y < (1 << k)):
            k += 1
            if k > 48:
                unsupported("__index__ on unbounded symbolic int (LIA) beyond 2^48")
        lo, hi = ((1 << (k - 1)) if k else 0), (1 << k) - 1
        while lo < hi:
            mid = (lo + hi) // 2
            if y <= mid:
                hi = mid
            else:
                lo = mid + 1
        return -lo if neg else lo
    unsupported(f"concretize {type(x).__name__}")


def lift(x):
    if isinstance(x, (SymInt, ZInt, SymReal)):
        return x
    if isinstance(x, bool):
        return SymInt.const(int(x))
    if isinstance(x, int):
        return SymInt.const(x)
    return None


def _rng_mul(a, b):
    c = (a.lo * b.lo, a.lo * b.hi, a.hi * b.lo, a.hi * b.hi)
    return min(c), max(c)


def _wrange(a, b):
    w = max(a.w, b.w)
    return -(1 << (w - 1)), (1 << (w - 1)) - 1


def _mask(a: SymInt, k: int):
    """a mod 2^k as a fresh unsigned leaf (eagerly materialised: keeps DAGs shallow and lets
    both sides of an equivalence normalise to the same term)."""
    if k == 0:
        return 0
    if a.lo >= 0 and a.hi < (1 << k):
        return a
    e = a.trunc(k)
    hi = (1 << k) - 1
    if a.lo >= 0:
        hi = min(hi, a.hi)
    return SymInt("leaf", (e, False), 0, hi)


def _bin(op, a, b):
    if isinstance(a, (ZInt, SymReal)) or isinstance(b, (ZInt, SymReal)):
        unsupported("mixing bit-vector and LIA/real symbolic values in one operation")
    if isinstance(a, float) or isinstance(b, float):
        unsupported("float arithmetic with a symbolic int")
    la, lb = lift(a), lift(b)
    if la is None or lb is None:
        return NotImplemented
    a, b = la, lb
    if op == "add":
        if b.op == "const" and b.lo == 0:
            return a
        if a.op == "const" and a.lo == 0:
            return b
        return SymInt(op, (a, b), a.lo + b.lo, a.hi + b.hi)
    if op == "sub":
        if b.op == "const" and b.lo == 0:
            return a
        return SymInt(op, (a, b), a.lo - b.hi, a.hi - b.lo)
    if op == "mul":
        for x, y in ((a, b), (b, a)):
            if x.op == "const":
                if x.lo == 0:
                    return 0
                if x.lo == 1:
                    return y
        lo, hi = _rng_mul(a, b)
        return SymInt(op, (a, b), lo, hi)
    if op == "and":
        for x, y in ((a, b), (b, a)):
            if x.op == "const":
                c = x.lo
                if c == 0:
                    return 0
                if c == -1:
                    return y
                if c > 0 and (c & (c + 1)) == 0:
                    return _mask(y, c.bit_length())
        if a.lo >= 0 and b.lo >= 0:
            return SymInt(op, (a, b), 0, min(a.hi, b.hi))
        if a.lo >= 0:
            return SymInt(op, (a, b), 0, a.hi)
        if b.lo >= 0:
            return SymInt(op, (a, b), 0, b.hi)
        lo, hi = _wrange(a, b)
        return SymInt(op, (a, b), lo, hi)
    if op in ("or", "xor"):
        for x, y in ((a, b), (b, a)):
            if x.op == "const" and x.lo == 0:
                return y
        if a.lo >= 0 and b.lo >= 0:
            hi = (1 << max(a.hi.bit_length(), b.hi.bit_length())) - 1
            return SymInt(op, (a, b), 0, hi)
        lo, hi = _wrange(a, b)
        return SymInt(op, (a, b), lo, hi)
    if op == "lshift":
        if b.op != "const":
            c = concretize(b, 128)
        else:
            c = b.lo
        if c < 0:
            raise ValueError("negative shift count")
        if c == 0:
            return a
        return SymInt("shl", (a, c), a.lo << c, a.hi << c)
    if op == "rshift":
        if b.op != "const":
            c = concretize(b, 128)
        else:
            c = b.lo
        if c < 0:
            raise ValueError("negative shift count")
        if c == 0:
            return a
        if a.op == "const":
            return a.lo >> c
        return SymInt("shr", (a, c), a.lo >> c, a.hi >> c)
    if op in ("floordiv", "mod"):
        if b.op != "const":
            # symbolic divisor: general signed floor division
            return _divmod_sym(op, a, b)
        m = b.lo
        if m == 0:
            raise ZeroDivisionError("integer division or modulo by zero")
        if m > 0 and (m & (m - 1)) == 0:
            k = m.bit_length() - 1
            if op == "mod":
                return _mask(a, k)
            if k == 0:
                return a
            return SymInt("shr", (a, k), a.lo >> k, a.hi >> k)
        return _divmod_sym(op, a, b)
    raise AssertionError(op)


def _divmod_sym(op, a, b):
    """Python floor division / modulo at a width where nothing wraps."""
    if b.lo <= 0 <= b.hi:
        if bool(_cmp("eq", b, 0)):
            raise ZeroDivisionError("integer division or modulo by zero")
    w = max(a.w, b.w) + 1
    A, B = a.trunc(w), b.trunc(w)
    if a.lo >= 0 and b.lo > 0:
        q = z3.UDiv(A, B)
        r = z3.URem(A, B)
        qlo, qhi = a.lo // b.hi, a.hi // b.lo
        rlo, rhi = 0, min(a.hi, b.hi - 1)
    else:
        # z3 bvsdiv truncates toward zero; correct to floor
        qt = A / B  # signed div
        rt = z3.SRem(A, B)
        adj = z3.And(rt != 0, (rt < 0) != (B < 0))
        q = z3.If(adj, qt - 1, qt)
        r = z3.If(adj, rt + B, rt)
        m = max(abs(a.lo), abs(a.hi))
        qlo, qhi = -m - 1, m + 1
        bm = max(abs(b.lo), abs(b.hi))
        rlo, rhi = (0 if b.lo > 0 else -bm), (0 if b.hi < 0 else bm)
    if op == "floordiv":
        return SymInt("leaf", (q, True), qlo, qhi)
    return SymInt("leaf", (r, True), rlo, rhi)


def _cmp(opn, a, b):
    if isinstance(b, (ZInt, SymReal)):
        return NotImplemented
    if isinstance(b, float):
        unsupported("comparison of symbolic int with float")
    la, lb = lift(a), lift(b)
    if la is None or lb is None:
        if opn == "eq":
            return False
        if opn == "ne":
            return True
        return NotImplemented
    a, b = la, lb
    # interval shortcuts
    if a.hi < b.lo:
        return opn in ("lt", "le", "ne")
    if a.lo > b.hi:
        return opn in ("gt", "ge", "ne")
    if a.lo == a.hi == b.lo == b.hi:
        return opn in ("le", "ge", "eq")
    if a.lo >= 0 and b.lo >= 0:
        w = max(a.w, b.w) - 1
        w = max(w, 1)
        x, y = a.trunc(w), b.trunc(w)
        e = {
            "lt": lambda: z3.ULT(x, y),
            "le": lambda: z3.ULE(x, y),
            "gt": lambda: z3.UGT(x, y),
            "ge": lambda: z3.UGE(x, y),
            "eq": lambda: x == y,
            "ne": lambda: x != y,
        }[opn]()
    else:
        w = max(a.w, b.w)
        x, y = a.trunc(w), b.trunc(w)
        e = {
            "lt": lambda: x < y,
            "le": lambda: x <= y,
            "gt": lambda: x > y,
            "ge": lambda: x >= y,
            "eq": lambda: x == y,
            "ne": lambda: x != y,
        }[opn]()
    return SymBool(e)


# ------------------------------------------------------------------------------------------
# ZInt: unbounded ints in linear integer arithmetic (no bit operations)


def _zexpr(o):
    if isinstance(o, ZInt):
        return o.e
    if isinstance(o, bool):
        return z3.IntVal(int(o))
    if isinstance(o, int):
        return z3.IntVal(o)
    if isinstance(o, SymInt):
        unsupported("mixing bit-vector and LIA symbolic ints")
    return None


class ZInt:
    __slots__ = ("e",)

    def __init__(self, e):
        self.e = e

    def _b(self, o, f):
        if isinstance(o, SymReal) or isinstance(o, float):
            return NotImplemented if isinstance(o, SymReal) else f(SymReal(z3.ToReal(self.e)), o)
        x = _zexpr(o)
        if x is None:
            return NotImplemented
        return x

    def __add__(self, o):
        if isinstance(o, (SymReal, float, Fraction)):
            return SymReal(z3.ToReal(self.e)) + o
        x = _zexpr(o)
        return NotImplemented if x is None else ZInt(self.e + x)

    __radd__ = __add__

    def __sub__(self, o):
        if isinstance(o, (SymReal, float, Fraction)):
            return SymReal(z3.ToReal(self.e)) - o
        x = _zexpr(o)
        return NotImplemented if x is None else ZInt(self.e - x)

    def __rsub__(self, o):
        if isinstance(o, (float, Fraction)):
            return o - SymReal(z3.ToReal(self.e))
        x = _zexpr(o)
        return NotImplemented if x is None else ZInt(x - self.e)

    def __mul__(self, o):
        if isinstance(o, (SymReal, float, Fraction)):
            return SymReal(z3.ToReal(self.e)) * o
        x = _zexpr(o)
        return NotImplemented if x is None else ZInt(self.e * x)

    __rmul__ = __mul__

    def __floordiv__(self, o):
        if isinstance(o, int) and o > 0:
            return ZInt(self.e / o)
        if isinstance(o, ZInt):
            # positive divisor required for z3 div == floor
            if not bool(o > 0):
                unsupported("LIA floor division by a non-positive symbolic divisor")
            return ZInt(self.e / o.e)
        unsupported("LIA floor division by non-constant / non-positive")

    def __rfloordiv__(self, o):
        if isinstance(o, int):
            if not bool(self > 0):
                unsupported("LIA floor division by a non-positive symbolic divisor")
            return ZInt(z3.IntVal(o) / self.e)
        unsupported("LIA rfloordiv")

    def __mod__(self, o):
        if isinstance(o, int) and o > 0:
            return ZInt(self.e % o)
        if isinstance(o, ZInt):
            if not bool(o > 0):
                unsupported("LIA modulo by a non-positive symbolic divisor")
            return ZInt(self.e % o.e)
        unsupported("LIA modulo by non-constant / non-positive")

    def __rmod__(self, o):
        if isinstance(o, int):
            if not bool(self > 0):
                unsupported("LIA modulo by a non-positive symbolic divisor")
            return ZInt(z3.IntVal(o) % self.e)
        unsupported("LIA rmod")

    def __divmod__(self, o):
        return self // o, self % o

    def __truediv__(self, o):
        return SymReal(z3.ToReal(self.e)) / o

    def __neg__(self):
        return ZInt(-self.e)

    def __pos__(self):
        return self

    def __abs__(self):
        return ZInt(z3.If(self.e >= 0, self.e, -self.e))

    def _c(self, o, f):
        if isinstance(o, (SymReal, float, Fraction)):
            return f(z3.ToReal(self.e), _rexpr(o))
        x = _zexpr(o)
        if x is None:
            return None
        return f(self.e, x)

    def __lt__(self, o):
        r = self._c(o, lambda a, b: a < b)
        return NotImplemented if r is None else SymBool(r)

    def __le__(self, o):
        r = self._c(o, lambda a, b: a <= b)
        return NotImplemented if r is None else SymBool(r)

    def __gt__(self, o):
        r = self._c(o, lambda a, b: a > b)
        return NotImplemented if r is None else SymBool(r)

    def __ge__(self, o):
        r = self._c(o, lambda a, b: a >= b)
        return NotImplemented if r is None else SymBool(r)

    def __eq__(self, o):
        r = self._c(o, lambda a, b: a == b)
        return False if r is None else SymBool(r)

    def __ne__(self, o):
        r = self._c(o, lambda a, b: a != b)
        return True if r is None else SymBool(r)

    __hash__ = None

    def __bool__(self):
        return bool(SymBool(self.e != 0))

    def __index__(self):
        return concretize(self)

    __int__ = __index__

    def __and__(self, o):
        # x & (2^k - 1) == x mod 2^k for every Python int x
        if isinstance(o, int) and not isinstance(o, bool) and o >= 0 and (o & (o + 1)) == 0:
            return ZInt(self.e % (o + 1)) if o else 0
        unsupported("bit operation on LIA symbolic int")

    __rand__ = __and__

    def _nobit(self, *a):
        unsupported("bit operation on LIA symbolic int")

    __or__ = __ror__ = __xor__ = __rxor__ = __lshift__ = __rshift__ = _nobit
    __rlshift__ = __rrshift__ = __invert__ = _nobit

    def __repr__(self):
        return "<zsym>"

    __str__ = __repr__

    def __format__(self, spec):
        return "<zsym>"


# ------------------------------------------------------------------------------------------
# SymReal: exact rationals (clock readings, timeouts)


def _rexpr(o):
    if isinstance(o, SymReal):
        return o.e
    if isinstance(o, ZInt):
        return z3.ToReal(o.e)
    if isinstance(o, bool):
        return z3.RealVal(int(o))
    if isinstance(o, int):
        return z3.RealVal(o)
    if isinstance(o, float):
        if o != o or o in (float("inf"), float("-inf")):
            unsupported("non-finite float with symbolic real")
        f = Fraction(o)
        return z3.RealVal(f"{f.numerator}/{f.denominator}")
    if isinstance(o, Fraction):
        return z3.RealVal(f"{o.numerator}/{o.denominator}")
    if isinstance(o, SymInt):
        unsupported("mixing bit-vector ints and reals")
    return None


class SymReal:
    __slots__ = ("e",)

    def __init__(self, e):
        self.e = e

    def __add__(self, o):
        x = _rexpr(o)
        return NotImplemented if x is None else SymReal(self.e + x)

    __radd__ = __add__

    def __sub__(self, o):
        x = _rexpr(o)
        return NotImplemented if x is None else SymReal(self.e - x)

    def __rsub__(self, o):
        x = _rexpr(o)
        return NotImplemented if x is None else SymReal(x - self.e)

    def __mul__(self, o):
        x = _rexpr(o)
        return NotImplemented if x is None else SymReal(self.e * x)

    __rmul__ = __mul__

    def __truediv__(self, o):
        if isinstance(o, (int, float, Fraction)) and o != 0:
            return SymReal(self.e / _rexpr(o))
        unsupported("division of symbolic real by non-constant")

    def __neg__(self):
        return SymReal(-self.e)

    def __lt__(self, o):
        x = _rexpr(o)
        return NotImplemented if x is None else SymBool(self.e < x)

    def __le__(self, o):
        x = _rexpr(o)
        return NotImplemented if x is None else SymBool(self.e <= x)

    def __gt__(self, o):
        x = _rexpr(o)
        return NotImplemented if x is None else SymBool(self.e > x)

    def __ge__(self, o):
        x = _rexpr(o)
        return NotImplemented if x is None else SymBool(self.e >= x)

    def __eq__(self, o):
        x = _rexpr(o)
        return False if x is None else SymBool(self.e == x)

    def __ne__(self, o):
        x = _rexpr(o)
        return True if x is None else SymBool(self.e != x)

    __hash__ = None

    def __bool__(self):
        return bool(SymBool(self.e != 0))

    def __float__(self):
        unsupported("float(symbolic real)")

    def __repr__(self):
        return "<symreal>"

    __str__ = __repr__

    def __format__(self, spec):
        return "<symreal>"


def is_sym(x):
    return isinstance(x, (SymInt, ZInt, SymReal, SymBool))


# ------------------------------------------------------------------------------------------
# model extraction


def model_value(kind, const, meta, model):
    v = model.eval(const, model_completion=True)
    if kind == "bv":
        n = v.as_long()
        signed, width = meta[0], meta[1]
        if signed and n >= (1 << (width - 1)):
            n -= 1 << width
        return n
    if kind == "int":
        return v.as_long()
    if kind == "real":
        return f"{v.numerator_as_long()}/{v.denominator_as_long()}"
    if kind == "bool":
        return bool(z3.is_true(v))
    raise AssertionError(kind)
