import json, sys, os, logging
logging.disable(logging.CRITICAL)
from symx.explore import replay_file
r = replay_file(sys.argv[1])
print(json.dumps(r, default=str))
sys.exit(1 if r["failures"] else (3 if (r["invalid"] or r["error"]) else 0))
