#!/bin/bash
# build_cext.sh <dest>: copy the aiokafka package from /repo's working tree into <dest> and build the
# Cython extension there from the current .pyx sources (never from /repo's untracked in-place .so files)
set -e
DEST=$1
mkdir -p "$DEST"
cd "${VERIF_REPO:-/repo}"
tar cf - --exclude='*.so' --exclude='__pycache__' --exclude='_crecords/*.c' setup.py pyproject.toml README.rst aiokafka 2>/dev/null | tar xf - -C "$DEST"
cp aiokafka/record/_crecords/crc32c.c aiokafka/record/_crecords/crc32c.h "$DEST/aiokafka/record/_crecords/" 2>/dev/null || true
cd "$DEST"
/venv/bin/python setup.py build_ext --inplace > "$DEST/build.log" 2>&1
ls aiokafka/record/_crecords/*.so > /dev/null
