"""Runs inside a scratch copy of the package whose Cython extension was built from the current .pyx
sources (PYTHONPATH points at the copy).  JSON lines in, JSON lines out."""
import json
import sys


def main():
    from aiokafka.record._crecords import DefaultRecordBatchBuilder, LegacyRecordBatchBuilder, MemoryRecords
    import aiokafka.record._crecords.memory_records as mod
    sys.stdout.write(json.dumps({"ready": mod.__file__}) + "\n")
    sys.stdout.flush()
    for line in sys.stdin:
        t = json.loads(line)
        crcs = []
        try:
            if t["op"] == "decode":
                recs = MemoryRecords(bytes.fromhex(t["data"]))
                out = []
                nb = 0
                while recs.has_next():
                    nb += 1
                    if nb > 200:
                        raise RuntimeError("runaway: more than 200 batches")
                    b = recs.next_batch()
                    crc = bool(b.validate_crc())
                    crcs.append(crc)
                    rs = []
                    n = 0
                    for r in b:
                        n += 1
                        if n > 2000:
                            raise RuntimeError("runaway: more than 2000 records")
                        hs = [[k, None if v is None else bytes(v).hex()] for k, v in (getattr(r, "headers", None) or [])]
                        rs.append([r.offset, r.timestamp, None if r.key is None else bytes(r.key).hex(),
                                   None if r.value is None else bytes(r.value).hex(), hs])
                    out.append({"crc": crc, "records": rs})
                res = {"batches": out}
            elif t["op"] == "build_v2":
                b = DefaultRecordBatchBuilder(2, t["codec"], t["txn"], t["pid"], t["epoch"], t["seq"], t["batch_size"])
                acc = []
                for r in t["records"]:
                    md = b.append(r["offset"], r["timestamp"], None if r["key"] is None else bytes.fromhex(r["key"]),
                                  None if r["value"] is None else bytes.fromhex(r["value"]),
                                  [(k, None if v is None else bytes.fromhex(v)) for k, v in r["headers"]])
                    acc.append(md is not None)
                res = {"accepted": acc, "data": bytes(b.build()).hex()}
            elif t["op"] == "build_legacy":
                b = LegacyRecordBatchBuilder(t["magic"], t["codec"], t["batch_size"])
                acc = []
                for r in t["records"]:
                    md = b.append(r["offset"], r["timestamp"], None if r["key"] is None else bytes.fromhex(r["key"]),
                                  None if r["value"] is None else bytes.fromhex(r["value"]))
                    acc.append(md is not None)
                res = {"accepted": acc, "data": bytes(b.build()).hex()}
            else:
                res = {"exc": "unknown op"}
        except BaseException as e:  # noqa: BLE001
            res = {"exc": type(e).__name__, "msg": str(e)[:200], "crcs_before": crcs}
        sys.stdout.write(json.dumps(res) + "\n")
        sys.stdout.flush()


main()
