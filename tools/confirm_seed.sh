#!/bin/bash
# confirm_seed.sh <ID> <mN> : confirm a seeded change in a scratch worktree and store it under /verif/seeded/<ID>-<mN>/
# checks: patch applies; suite passes with it; demo fails with it; demo passes without it
# optional: SRCROOT (default /tmp/wt) = where the sub-agent left <ID>-out/<mN>/; OUTNAME (default <mN>) = name under seeded/
ID=$1; M=$2; SRCROOT=${SRCROOT:-/tmp/wt}; SRC=$SRCROOT/$ID-out/$M
mkdir -p /tmp/wt
WT=/tmp/wt/confirm-$ID-${OUTNAME:-$M}
OUT=/verif/seeded/$ID-${OUTNAME:-$M}
git -C /repo worktree add --detach "$WT" HEAD >/dev/null 2>&1 || { echo "$ID $M: worktree failed"; exit 2; }
cp /repo/aiokafka/record/_crecords/*.so "$WT/aiokafka/record/_crecords/" 2>/dev/null
cd "$WT"
res() { echo "$ID $M: $1"; cd /; git -C /repo worktree remove --force "$WT"; exit $2; }
timeout 300 /venv/bin/python "$SRC/demo.py" >/tmp/wt/confirm-$ID-$M.clean.log 2>&1; c0=$?
[ $c0 -eq 0 ] || res "demo fails on the CLEAN tree (exit $c0)" 3
git apply "$SRC/patch.diff" || res "patch does not apply" 4
timeout 300 /venv/bin/python "$SRC/demo.py" >/tmp/wt/confirm-$ID-$M.mut.log 2>&1; c1=$?
[ $c1 -ne 0 ] || res "demo does NOT fail on the changed tree" 5
suite=$(timeout 1500 /venv/bin/python -m pytest -q -p no:cacheprovider --timeout=900 2>&1 | tail -1)
echo "$suite" | grep -q "749 passed" || res "suite does not pass with the change: $suite" 6
mkdir -p "$OUT"; cp "$SRC/patch.diff" "$SRC/demo.py" "$OUT/"
python3 - "$SRC/meta.json" "$OUT/meta.json" "$suite" "$c1" <<'PY'
import json,sys
m=json.load(open(sys.argv[1]))
m["confirmed"]={"suite_with_change":sys.argv[3].strip(),"demo_exit_with_change":int(sys.argv[4]),"demo_exit_clean":0,
 "how":"tools/confirm_seed.sh: scratch worktree of /repo HEAD; demo on clean tree (exit 0); git apply patch.diff; demo (non-zero); full pytest suite (749 passed)"}
json.dump(m,open(sys.argv[2],"w"),indent=1)
PY
res "CONFIRMED ($suite)" 0
