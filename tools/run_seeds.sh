#!/bin/bash
# run_seeds.sh <ID> [tier]: apply each seeded change for <ID> to /repo, run the check, undo. Prints one line per seed.
ID=$1; TIER=${2:-quick}
cd /verif
[ -z "$(git -C /repo status --porcelain --untracked-files=no)" ] || { echo "/repo not clean"; exit 2; }
for d in /verif/seeded/$ID-*/; do
  n=$(basename $d)
  git -C /repo apply "$d/patch.diff" || { echo "$n: patch does not apply"; continue; }
  t0=$(date +%s)
  timeout 3600 ./check $ID --tier $TIER > /tmp/seedrun-$n.log 2>&1; rc=$?
  git -C /repo checkout -- .
  v=$(grep -c "^VIOLATION" /tmp/seedrun-$n.log)
  echo "$n: exit=$rc violations=$v time=$(( $(date +%s)-t0 ))s :: $(grep -m1 'violation in' /tmp/seedrun-$n.log | cut -c1-160)"
done
