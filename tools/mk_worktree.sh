#!/bin/bash
# mk_worktree.sh <name>  -> /tmp/wt/<name>, a detached worktree of /repo HEAD with the compiled extension copied in
set -e
d=/tmp/wt/$1
mkdir -p /tmp/wt
git -C /repo worktree add --detach "$d" HEAD >/dev/null 2>&1
cp /repo/aiokafka/record/_crecords/*.so "$d/aiokafka/record/_crecords/" 2>/dev/null || true
echo "$d"
