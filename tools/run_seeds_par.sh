#!/bin/bash
# run_seeds_par.sh <tier> <jobs> <seed-dir-name>...   e.g.  run_seeds_par.sh quick 4 C01-r2m1 C07-m2
# Each seeded change is applied to its own scratch copy of /repo's working tree (under /tmp, removed
# afterwards); the property's check runs against that copy (VERIF_REPO) with its own evidence directory,
# so several seeds can be checked side by side and /repo itself is never touched.
TIER=$1; JOBS=$2; shift 2
one() {
  n=$1; TIER=$2
  ID=${n%%-*}
  W=$(mktemp -d /tmp/seedcopy-$n-XXXX)
  git -C /repo archive HEAD | tar xf - -C $W
  ( cd $W && git apply /verif/seeded/$n/patch.diff ) || { echo "$n: patch does not apply"; rm -rf $W; return; }
  t0=$(date +%s)
  VERIF_REPO=$W VERIF_EVIDENCE_DIR=$W/.evidence VERIF_WORKERS=${VERIF_WORKERS:-8} timeout 3600 /verif/check $ID --tier $TIER > /tmp/seedrun-$n.log 2>&1; rc=$?
  v=$(grep -c "^VIOLATION" /tmp/seedrun-$n.log)
  echo "$n: exit=$rc violations=$v time=$(( $(date +%s)-t0 ))s :: $(grep -m1 'violation in\|INCONCLUSIVE' /tmp/seedrun-$n.log | cut -c1-200)"
  rm -rf $W
}
export -f one
printf '%s\n' "$@" | xargs -P $JOBS -I{} bash -c "one {} $TIER"
