#!/bin/bash
# seed_matrix.sh [tier]: every seeded change x the check of the property it breaks -> seeded/MATRIX.txt
TIER=${1:-quick}
OUT=/verif/seeded/MATRIX-$TIER.txt
: > $OUT
for id in C01 C02 C03 C04 C05 C06 C07 C08 C09 C10 C11 C12 C13 C14 C15 C16 C17 C18 C19; do
  /verif/tools/run_seeds.sh $id $TIER >> $OUT 2>&1
done
echo DONE >> $OUT
