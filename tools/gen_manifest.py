#!/usr/bin/env python3
"""Regenerates MANIFEST.json from the table below (run from /verif)."""
import json
import os

HERE = os.path.dirname(os.path.dirname(os.path.abspath(__file__)))

# property -> (technique, level text, level note, design ref)
CLAIMED = {
    "C17": (
        "symbolic execution of the real murmur2/DefaultPartitioner on z3 bit-vector bytes; equivalence "
        "with an int32 transcription of Java Utils.murmur2 discharged per key length (unsat)",
        "Bounded symbolic verification: for every key length in the bound the real murmur2 is run on "
        "symbolic bytes and z3 proves bit-for-bit equality with the Java int32 algorithm for all 256^n "
        "keys; the partition index is proven equal to (hash & 0x7fffffff) mod n for all 2^32 hash "
        "values and every n in the bound (integer arithmetic). Holds within the stated lengths/counts only.",
        "Trusted: symx engine (self-tested against CPython), z3, the Java algorithm as transcribed in "
        "harness/C17.py. K3 (list order handed to the partitioner) is a finite enumeration.",
        "§4 C17",
    ),
    "C09": (
        "symbolic execution of the real pure-Python varint and CRC-32C code on z3 bit-vectors: round-trip and "
        "layout for all int64 values, crc_update step vs the bitwise CRC-32C definition for all 2^40 (state, byte) pairs",
        "Bounded symbolic verification of the pure-Python codec primitives (varint encode/decode/size for every "
        "int64; crc_update for every 32-bit state and byte, plus the fold structure that lifts it to any length). "
        "The batch builders/readers and the compiled extension are not yet covered by this revision.",
        "Trusted: symx, z3, struct/array shims. Compiled extension (_crecords) cannot be encoded by this technique: "
        "no claim about it.",
        "§4 C09",
    ),
    "C11": (
        "symbolic execution of the real protocol primitives (fixed ints, unsigned/zig-zag varints, compact forms, "
        "tagged fields) on symbolic values through struct/BytesIO shims; Request.prepare run on symbolic (min,max) "
        "broker ranges for all 32 request builders; finite walk of request/response pairing",
        "Bounded symbolic verification: every primitive round-trips and has the protocol-guide layout for all "
        "in-range values (strings/bytes/arrays at boundary lengths from a menu); version negotiation picks the "
        "highest client version inside [min,max] for every pair 0<=min<=max<=32 and every builder, refuses "
        "otherwise; each request struct is paired with a response of identical key/schema and the right header form.",
        "Trusted: symx, z3, struct/BytesIO shims (format strings are read from the code). Conformance of the 100+ "
        "schema tables to Kafka's message definitions and the per-version builder arguments (K3) are not covered yet.",
        "§4 C11",
    ),
    "C12": (
        "symbolic execution of the real AIOKafkaConnection._handle_frame/close from a symbolic in-flight queue "
        "(correlation ids as bit-vectors), _next_correlation_id over all 2^31 ids, and exhaustive enumeration of "
        "stream cuts/faults/waiter events against the real reader task on a virtual-time loop",
        "Bounded symbolic verification + exhaustive fault enumeration: for 1..3 in-flight requests with arbitrary "
        "distinct correlation ids and an arbitrary received id, only the head waiter gets the matching reply and a "
        "mismatch closes the connection and fails every waiter; the real _read task is driven with every cut "
        "position, EOF position, wrong/duplicate/unsolicited id, truncated body, bad size, cancelled or timed-out "
        "waiters for 2 pipelined requests (quick).",
        "Trusted: symx, z3, asyncio.StreamReader (stdlib), the virtual-time loop, struct/BytesIO shims. TCP transport "
        "is an in-memory stream. Known finding D7 (FindCoordinator v0 quirk) is listed in known_findings.json.",
        "§4 C12",
    ),
}

NOT_YET = "harness not built yet in this revision (planned in DESIGN.md §4); no claim is made"


def main():
    props = [json.loads(l)["id"] for l in open(os.path.join(HERE, "properties.jsonl"))]
    extra = {}
    p = os.path.join(HERE, "tools", "manifest_table.json")
    if os.path.exists(p):
        extra = json.load(open(p))
    claimed = dict(CLAIMED)
    for key in ("claimed", "claimed_more"):
        for k, v in extra.get(key, {}).items():
            claimed[k] = tuple(v)
    na = extra.get("not_applicable", {})
    checks = []
    for pid in props:
        if pid not in claimed:
            continue
        tech, text, note, ref = claimed[pid]
        checks.append({
            "property_id": pid,
            "quick_cmd": f"./check {pid} --tier quick",
            "thorough_cmd": f"./check {pid} --tier thorough",
            "evidence_file": f"/verif/evidence/{pid}.json",
            "replay_cmd_template": f"./check {pid} --replay {{path}}",
            "engine": "symx",
            "level_claimed": {"category": "other", "text": text, "design_ref": ref},
            "level_note": note,
            "technique": tech,
        })
    m = {
        "version": 1,
        "setup_cmd": "./setup.sh",
        "hooks": {
            "guard": "AIO_LIBS_AIOKAFKA_VERIF",
            "enable": "no source hooks are needed: harnesses monkey-patch from their own process and use the library's existing AIOKAFKA_NO_EXTENSIONS switch",
            "baseline_off_cmd": "cd /repo && /venv/bin/python -m pytest -ra -q -p no:cacheprovider --timeout=900 --continue-on-collection-errors",
            "source_commits": [],
            "add_only": True,
        },
        "engines": [
            {"name": "symx", "path": "/verif/symx", "serves_properties": sorted(claimed),
             "kind_free_text": "concolic/symbolic executor for Python: proxy ints over z3 bit-vectors/LIA/reals, fork by re-execution, DFS over a process pool, concrete replay of every model"},
        ],
        "checks": checks,
        "not_applicable": [
            {"property_id": pid, "reason": na.get(pid, NOT_YET)} for pid in props if pid not in claimed
        ],
        "notes": "Solver-based bounded checking of the real aiokafka code; see DESIGN.md. Exit codes: 0 held within bounds, 1 replayed violation, 3 inconclusive (never with a VIOLATION line).",
    }
    with open(os.path.join(HERE, "MANIFEST.json"), "w") as f:
        json.dump(m, f, indent=1)
    print("claimed:", sorted(claimed), "not applicable:", [x["property_id"] for x in m["not_applicable"]])


main()
