"""Composed bounded runs of the real AIOKafkaProducer on the virtual loop against simkafka
(shared by C01-S1, C02-S1, C19-S1)."""
import asyncio

import aiokafka.errors as E
from aiokafka import AIOKafkaProducer

from env import simkafka, vloop

RETRIABLE_MENU = [
    "none",
    "drop_before",          # connection dropped before the broker applied the request
    "drop_after",           # applied, reply lost with the connection
    "timeout_after",        # applied, reply lost: request timeout
    "timeout_before",       # request lost, never applied: request timeout
    ("error", 6),           # NOT_LEADER_FOR_PARTITION
    ("error", 5),           # LEADER_NOT_AVAILABLE
    ("error", 3),           # UNKNOWN_TOPIC_OR_PARTITION
    ("error", 7),           # REQUEST_TIMED_OUT
    ("error", 19),          # NOT_ENOUGH_REPLICAS
    ("error_after", 20),    # NOT_ENOUGH_REPLICAS_AFTER_APPEND (appended, then error)
    "migrate",              # leader moves to the other node; this request gets NOT_LEADER; metadata is fresh
    "migrate_stale",        # same, but the next metadata reply still names the old leader
]


class FaultPlan:
    """For the i-th eligible request ask the source which fault to inject (bounded)."""

    def __init__(self, src, menu, eligible_apis, max_requests, max_faults, prefix="fault"):
        self.src, self.menu = src, menu
        self.apis = eligible_apis
        self.max_requests, self.max_faults = max_requests, max_faults
        self.seen = 0
        self.used = 0
        self.prefix = prefix
        self.log = []
        self.stale_left = 0
        self.enabled = False  # faults start after start() returned

    def __call__(self, cluster, node, req, entry):
        k = req.API_KEY
        if not self.enabled:
            return None
        if k == 3 and self.stale_left > 0:
            self.stale_left -= 1
            return None
        if k not in self.apis:
            return None
        self.seen += 1
        if self.seen > self.max_requests or self.used >= self.max_faults:
            return None
        menu = self.menu if k != 3 else [m for m in self.menu if isinstance(m, str) and not m.startswith("migrate")]
        f = menu[self.src.choice(f"{self.prefix}{self.seen}", len(menu))]
        if f == "none":
            return None
        self.used += 1
        self.log.append((self.seen, simkafka.NAMES.get(k), f))
        if f in ("migrate", "migrate_stale"):
            if k != 0:
                return None
            moved = []
            for tp, ld in list(cluster.leader.items()):
                if ld == node:
                    other = [n for n in cluster.nodes if n != node][0]
                    cluster.leader[tp] = other
                    moved.append(tp)
                    if f == "migrate_stale":
                        cluster.metadata_overrides[tp] = node
            if f == "migrate_stale":
                self.stale_left = 1

                def clear():
                    cluster.metadata_overrides.clear()
                asyncio.get_event_loop().call_later(0.25, clear)
            return ("error", 6)
        return f


async def produce_workload(loop, src, cluster, cfg, plan, tasks_spec, res):
    """tasks_spec: list of lists of partitions; task j sends record i to tasks_spec[j][i]"""
    kw = dict(bootstrap_servers="h0:9092", request_timeout_ms=cfg.get("request_timeout_ms", 1000),
              retry_backoff_ms=100, linger_ms=cfg.get("linger_ms", 0), metadata_max_age_ms=300000,
              max_batch_size=cfg.get("max_batch_size", 16384), acks=cfg.get("acks", 1))
    if cfg.get("idempotent"):
        kw["enable_idempotence"] = True
        kw.pop("acks")
    if cfg.get("transactional_id"):
        kw["transactional_id"] = cfg["transactional_id"]
    producer = AIOKafkaProducer(**kw)
    res["producer"] = producer
    await producer.start()
    plan.enabled = True
    res["started_at"] = loop.time()
    if cfg.get("start_seq"):
        tm = producer._txn_manager
        from aiokafka.structs import TopicPartition
        for tp in cluster.logs:
            tm._sequence_numbers[TopicPartition(*tp)] = cfg["start_seq"]
        cluster.allow_unknown_producer_seq = True
    sends = []  # (task, index, partition, key, value, future or exception, accepted order)
    order = []
    progress = asyncio.Event()

    async def sender(j, parts):
        for i, p in enumerate(parts):
            key, value = b"k%d-%d" % (j, i), b"v%d-%d" % (j, i)
            ts = 1000 + 10 * j + i if cfg.get("explicit_ts") else None
            try:
                if j in cfg.get("send_batch_tasks", ()):
                    # the batch API: a caller-built batch of one record (no per-record futures in the library)
                    bb = producer.create_batch()
                    bb.append(key=key, value=value, timestamp=ts)
                    fut = await producer.send_batch(bb, "t", partition=p)
                else:
                    fut = await producer.send("t", value=value, key=key, partition=p, timestamp_ms=ts)
            except Exception as e:  # noqa: BLE001
                sends.append(dict(task=j, i=i, p=p, key=key, value=value, fut=None, exc=e, ts=ts))
                continue
            order.append((j, i))
            progress.set()
            sends.append(dict(task=j, i=i, p=p, key=key, value=value, fut=fut, exc=None, ts=ts,
                              accepted_at=loop.time()))
            if cfg.get("yield_between", True):
                await asyncio.sleep(0)

    ts_ = [asyncio.ensure_future(sender(j, parts)) for j, parts in enumerate(tasks_spec)]
    early = cfg.get("stop_after_accepted")
    if early is None:
        await asyncio.wait(ts_)
    else:
        # stop()/flush() issued while sender tasks are still running (after `early` accepted sends)
        while len(order) < early and not all(t.done() for t in ts_):
            progress.clear()
            await asyncio.wait([asyncio.ensure_future(progress.wait()), *[t for t in ts_ if not t.done()]],
                               return_when=asyncio.FIRST_COMPLETED)
    res["sends"] = sends
    res["sent_done_at"] = loop.time()
    how = cfg.get("finish", "flush_stop")
    t0 = loop.time()
    if how in ("flush_stop", "flush"):
        before = [s for s in sends if s["fut"] is not None]
        await producer.flush()
        res["flush_returned_at"] = loop.time()
        res["pending_after_flush"] = [s for s in before if not s["fut"].done()]
    if how in ("flush_stop", "stop"):
        before = [s for s in sends if s["fut"] is not None]
        await producer.stop()
        res["stop_returned_at"] = loop.time()
        res["pending_after_stop"] = [s for s in before if not s["fut"].done()]
    res["finish_took"] = loop.time() - t0
    if early is not None:
        # snapshot at the instant stop() returned, then let the sender tasks run into ProducerClosed
        await asyncio.wait(ts_, timeout=5)
        for t in ts_:
            if not t.done():
                t.cancel()
        res["late_accepted"] = [s for s in sends if s["fut"] is not None and s.get("accepted_at", 0) > res.get("stop_returned_at", 1e9)]
    res["tasks_left"] = vloop.library_tasks(loop)
    res["timers_left"] = [h for h in loop.live_timers()]
    res["conns_open"] = [c for c in cluster.conns if c.connected()]


def run_producer(src, cfg, tasks_spec, menu, max_requests, max_faults, topics=None, max_vtime=300.0):
    cluster = simkafka.Cluster(nodes=(0, 1), topics=topics or {"t": 2},
                               log_append_time=("t",) if cfg.get("log_append_time") else (),
                               versions=cfg.get("versions"))
    cluster.duplicates_answered_with_46 = bool(cfg.get("dup46"))
    plan = FaultPlan(src, menu, {0, 3} if cfg.get("fault_metadata", True) else {0}, max_requests, max_faults)
    cluster.fault_fn = plan
    res = {"cluster": cluster, "plan": plan}

    async def main(loop):
        with simkafka.installed(cluster):
            try:
                await produce_workload(loop, src, cluster, cfg, plan, tasks_spec, res)
            except vloop.Deadlock as e:
                res["deadlock"] = str(e)

    try:
        vloop.run(main, max_vtime=max_vtime)
    except vloop.Deadlock as e:
        res["deadlock"] = str(e)
    return res


def log_records(cluster, tp):
    out = []
    for b in cluster.logs[tp].batches:
        if b.control:
            continue
        for r in b.records:
            out.append((r[0], r[1], r[2], r[4], b))
    return out
