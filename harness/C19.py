"""C19 — stop() always terminates and leaves nothing running."""
import asyncio

from symx import Harness

import aiokafka.errors as E
from aiokafka import AIOKafkaConsumer, AIOKafkaProducer
from aiokafka.client import AIOKafkaClient
from aiokafka.conn import AIOKafkaConnection
from aiokafka.consumer.fetcher import Fetcher
from aiokafka.consumer.group_coordinator import GroupCoordinator
from aiokafka.producer.sender import Sender
from aiokafka.structs import TopicPartition

from env import simkafka, vloop
from . import conssim, groupsim
from . import grouporacles as GO

MODES = ["healthy", "node1_down", "all_down"]


def _apply_mode(cluster, mode):
    if mode == "node1_down":
        cluster.down = {1}
    elif mode == "all_down":
        cluster.down = set(cluster.nodes)
    for c in list(cluster.conns):
        if c.node in cluster.down and c.connected():
            c.close(reason="sim-broker-down")


async def _leftovers_settled(loop, cluster):
    await vloop.settle(8)  # let cancelled simulator tasks unwind (their sleep timers disappear with them)
    return _leftovers(loop, cluster)


def _leftovers(loop, cluster):
    sim = ("/verif/", "Group.check_sessions", "Group._barrier_timeout", "simkafka")
    return dict(timers=[str(h)[:120] for h in loop.live_timers() if not any(x in str(h) for x in sim)],
                tasks=[str(t.get_coro())[:120] for t in vloop.library_tasks(loop)],
                conns=[c.host for c in cluster.conns if c.connected()])


def _leftovers_old(loop, cluster):
    return dict(tasks=[str(t.get_coro())[:120] for t in vloop.library_tasks(loop)],
                timers=[str(h)[:120] for h in loop.live_timers() if "/verif/" not in str(h)],
                conns=[c.host for c in cluster.conns if c.connected()])


# ------------------------------------------------------------------------------------------ producer


def s1_producer(src, nsends):
    idem = src.flag("idempotent")
    mode = MODES[src.choice("cluster_mode", 3)]
    k = src.choice("stop_after_sends", nsends + 1)
    mode_at = src.choice("mode_switch_after_sends", nsends + 1)
    cluster = simkafka.Cluster(nodes=(0, 1), topics={"t": 2})
    res = {}
    RT = 1.0

    async def main(loop):
        with simkafka.installed(cluster):
            kw = dict(bootstrap_servers="h0:9092", request_timeout_ms=int(RT * 1000), retry_backoff_ms=100, linger_ms=0)
            if idem:
                kw["enable_idempotence"] = True
            p = AIOKafkaProducer(**kw)
            await p.start()
            futs = []
            for i in range(nsends):
                if i == mode_at:
                    _apply_mode(cluster, mode)
                if i == k:
                    break
                try:
                    futs.append(await asyncio.wait_for(p.send("t", b"v%d" % i, partition=i % 2), timeout=5))
                except (E.KafkaError, asyncio.TimeoutError) as e:
                    res.setdefault("send_errors", []).append(repr(e))
                await asyncio.sleep(0.0007)
            if mode_at >= nsends or mode_at > k:
                _apply_mode(cluster, mode)
            t0 = loop.time()
            stop_task = asyncio.ensure_future(p.stop())
            done, _ = await asyncio.wait([stop_task], timeout=60)
            res["stop_returned"] = bool(done)
            res["stop_took"] = loop.time() - t0
            res["stop_exc"] = repr(stop_task.exception()) if done and stop_task.exception() else None
            if not done:
                stop_task.cancel()
                return
            res["left"] = await _leftovers_settled(loop, cluster)
            res["pending_futs"] = sum(1 for f in futs if not f.done())
            try:
                await asyncio.wait_for(p.send("t", b"late", partition=0), timeout=10)
                res["late_send"] = "accepted"
            except asyncio.TimeoutError:
                res["late_send"] = "hangs (no result within 10 s)"
            except E.ProducerClosed:
                res["late_send"] = "ProducerClosed"
            except Exception as e:  # noqa: BLE001
                res["late_send"] = repr(e)

    try:
        vloop.run(main, max_vtime=400)
    except vloop.Deadlock as e:
        res["deadlock"] = str(e)
    info = dict(idempotent=idem, mode=mode, stop_after=k, mode_switch_at=mode_at)
    src.note({**info, **{kk: vv for kk, vv in res.items() if kk != "left"}})
    bound = 2 * RT + 1.0  # request timeout (x2: the in-flight request and one retry) + back-offs
    ok = res.get("stop_returned") and "deadlock" not in res
    if src.twin:
        ok = not ok
    if idem and mode != "healthy":
        src.check(ok, "idempotent producer: stop() does not return while brokers are unreachable (batches never expire)", **info)
    else:
        src.check(ok, "producer.stop() did not return", **info)
    if not res.get("stop_returned"):
        return
    src.check(res["stop_exc"] is None, "producer.stop() raised " + str(res["stop_exc"]), **info)
    src.check(res["stop_took"] <= bound, f"producer.stop() took {res['stop_took']:.2f}s of virtual time (> {bound}s)", **info)
    left = res["left"]
    src.check(not left["tasks"], "tasks of the producer still running after stop()", tasks=left["tasks"][:3], **info)
    src.check(not left["timers"], "timers of the producer still armed after stop()", timers=left["timers"][:3], **info)
    src.check(not left["conns"], "connections still open after stop()", conns=left["conns"], **info)
    src.check(res["pending_futs"] == 0, "a send future is still pending after stop()", **info)
    src.check(res["late_send"] == "ProducerClosed", "send() after stop() did not raise ProducerClosed: " + str(res["late_send"]), **info)


def s1_producer_fatal(src):
    """stop() of a transactional producer whose sender task already died with a fatal error"""
    from . import txnsim
    cluster = simkafka.Cluster(nodes=(0, 1), topics={"t": 2, "in": 1})
    faults = txnsim.TxnFaults(src, ("fatal",), 3, 1, apis={24, 26, 0})
    cluster.fault_fn = faults
    commit_first = src.flag("healthy_transaction_first")
    res = {}

    async def main(loop):
        with simkafka.installed(cluster):
            p = await txnsim.open_producer(cluster)
            if commit_first:
                await p.begin_transaction()
                await p.send("t", b"a", partition=0)
                await p.commit_transaction()
            faults.enabled = True
            try:
                await p.begin_transaction()
                f = await p.send("t", b"b", partition=1)
                await asyncio.wait_for(p.commit_transaction(), timeout=20)
                res["commit"] = "ok"
            except (E.KafkaError, E.IllegalOperation, asyncio.TimeoutError) as e:
                res["commit"] = type(e).__name__
            await asyncio.sleep(0.05)
            st = asyncio.ensure_future(p.stop())
            done, _ = await asyncio.wait([st], timeout=60)
            res["stop_returned"] = bool(done)
            if done:
                res["stop_exc"] = "CancelledError" if st.cancelled() else (repr(st.exception()) if st.exception() else None)
            else:
                st.cancel()
            res["left"] = await _leftovers_settled(loop, cluster)

    try:
        vloop.run(main, max_vtime=400)
    except vloop.Deadlock as e:
        res["deadlock"] = str(e)
    info = dict(faults=faults.log, commit=res.get("commit"), healthy_first=commit_first)
    src.note(info)
    ok = bool(res.get("stop_returned")) and "deadlock" not in res
    if src.twin:
        ok = not ok
    src.check(ok, "producer.stop() did not return after the sender died", **info)
    if not res.get("stop_returned"):
        return
    src.check(res["stop_exc"] is None, "producer.stop() raised " + str(res["stop_exc"]) + " (the sender's fatal error) instead of closing", **info)
    left = res["left"]
    src.check(not left["tasks"], "tasks of the producer still running after stop()", tasks=left["tasks"][:3], **info)
    src.check(not left["conns"], "connections still open after stop()", conns=left["conns"], **info)


# ------------------------------------------------------------------------------------------ group-less consumer


def s1_consumer(src, shape):
    mode = MODES[src.choice("cluster_mode", 3)]
    stop_at = [0.0, 0.003, 0.006, 0.02, 0.15, 0.5, 1.3][src.choice("stop_at", 7)]
    mode_at = [0.0, 0.004, 0.1][src.choice("mode_at", 3)]
    reassign = src.choice("assignment_replaced_before_stop", 3)  # 0 never, 1 once, 2 twice (assign() called again)
    cluster = simkafka.Cluster(nodes=(0, 1), topics={"t": 1})
    conssim.fill_log(cluster, ("t", 0), shape)
    res = {}
    RT = 1.0

    async def main(loop):
        with simkafka.installed(cluster):
            c = AIOKafkaConsumer(bootstrap_servers="h0:9092", group_id=None, enable_auto_commit=False,
                                 auto_offset_reset="earliest", fetch_max_wait_ms=100, request_timeout_ms=int(RT * 1000),
                                 retry_backoff_ms=100)
            await c.start()
            c.assign([conssim.TP0])

            async def app():
                try:
                    while True:
                        await c.getmany(timeout_ms=50)
                except (E.ConsumerStoppedError, asyncio.CancelledError):
                    return
                except E.KafkaError:
                    return

            at = asyncio.ensure_future(app())
            t0 = loop.time()
            loop.call_later(mode_at, _apply_mode, cluster, mode)
            for _ in range(reassign):
                await asyncio.sleep(stop_at / (reassign + 1))
                c.assign([conssim.TP0])
            await asyncio.sleep(stop_at / (reassign + 1))
            t1 = loop.time()
            st = asyncio.ensure_future(c.stop())
            done, _ = await asyncio.wait([st], timeout=60)
            res["stop_returned"] = bool(done)
            res["stop_took"] = loop.time() - t1
            if done:
                res["stop_exc"] = "CancelledError" if st.cancelled() else (repr(st.exception()) if st.exception() else None)
            at.cancel()
            res["left"] = await _leftovers_settled(loop, cluster)
            try:
                await asyncio.wait_for(c.getone(), timeout=10)
                res["late"] = "returned"
            except asyncio.TimeoutError:
                res["late"] = "hangs (no result within 10 s)"
            except E.ConsumerStoppedError:
                res["late"] = "ConsumerStoppedError"
            except Exception as e:  # noqa: BLE001
                res["late"] = repr(e)

    try:
        vloop.run(main, max_vtime=400)
    except vloop.Deadlock as e:
        res["deadlock"] = str(e)
    info = dict(mode=mode, stop_at=stop_at, mode_at=mode_at, reassigned=reassign)
    src.note({**info, **{k: v for k, v in res.items() if k != "left"}})
    ok = bool(res.get("stop_returned")) and "deadlock" not in res
    if src.twin:
        ok = not ok
    src.check(ok, "consumer.stop() did not return", **info)
    if not res.get("stop_returned"):
        return
    src.check(res["stop_exc"] is None, "consumer.stop() raised " + str(res["stop_exc"]), **info)
    src.check(res["stop_took"] <= 2 * RT + 1.0, f"consumer.stop() took {res['stop_took']:.2f}s of virtual time", **info)
    left = res["left"]
    src.check(not left["tasks"], "tasks of the consumer still running after stop()", tasks=left["tasks"][:3], **info)
    src.check(not left["timers"], "timers of the consumer still armed after stop()", timers=left["timers"][:3], **info)
    src.check(not left["conns"], "connections still open after stop()", conns=left["conns"], **info)
    src.check(res.get("late") == "ConsumerStoppedError", "getone() after stop() did not raise ConsumerStoppedError: " + str(res.get("late")), **info)


# ------------------------------------------------------------------------------------------ group consumer


def s1_group(src, static_member):
    mode = MODES[src.choice("cluster_mode", 3)]
    stop_at = [0.004, 0.012, 0.05, 0.31, 0.33, 0.45, 0.9][src.choice("stop_at", 7)]
    mode_at = [0.0, 0.2, 0.32][src.choice("mode_at", 3)]
    autocommit = src.flag("auto_commit")
    slow_sync = [0.0, 0.25][src.choice("sync_group_reply_takes", 2)]  # stop() may arrive while SyncGroup is unanswered
    # one coordinator reply that a rebalance in progress legitimately produces, given to A's first such request
    # ... SyncGroup of the first join / SyncGroup of the re-join caused by B / first Heartbeat (JoinGroup never gets 27)
    # ... or, from A's second JoinGroup on (the re-join B causes), GROUP_AUTHORIZATION_FAILED every time: a
    # non-retriable error the coordination task parks for the application, which stops polling before stop()
    gfault = [None, (14, 27, 1), (14, 27, 2), (12, 27, 1), (11, 30, 2, "persist")][src.choice("rebalance_in_progress_reply_to", 4 if static_member else 5)]
    cfg = {"member": {"auto_commit": autocommit, "auto_commit_interval_ms": 150, "assignors": ["roundrobin"],
                      "group_instance_id": "static-A" if static_member else None},
           "versions": {11: (0, 5), 14: (0, 3)} if static_member else None}
    RT = 1.0

    async def scenario(run, loop):
        a = run.member("A")
        b = run.member("B", group_instance_id=None)
        used = []

        def fault_fn(cluster, node, req, entry):
            if gfault and entry["client"] == "A" and req.API_KEY == gfault[0]:
                used.append(1)
                if len(used) == gfault[2] or (len(gfault) > 3 and len(used) > gfault[2]):
                    return ("error", gfault[1])
            return None
        run.cluster.fault_fn = fault_fn
        await a.start()
        run.cluster.sync_delay = slow_sync
        t0 = loop.time()
        loop.call_later(0.3, lambda: asyncio.ensure_future(b.start()))  # rebalance around 0.3
        loop.call_later(mode_at, _apply_mode, run.cluster, mode)
        await asyncio.sleep(stop_at)
        a.alive = False
        if a.app is not None:
            a.app.cancel()
        had_generation = a.consumer._coordinator.generation > 0
        coord_known = a.consumer._coordinator.coordinator_id is not None
        t1 = loop.time()
        st = asyncio.ensure_future(a.consumer.stop())
        done, _ = await asyncio.wait([st], timeout=60)
        run.res = dict(stop_returned=bool(done), stop_took=loop.time() - t1, had_generation=had_generation,
                       coord_known=coord_known)
        if done:
            run.res["stop_exc"] = "CancelledError" if st.cancelled() else (repr(st.exception()) if st.exception() else None)
        else:
            st.cancel()
        # what belongs to A
        run.res["conns"] = [c.host for c in run.cluster.conns if c.client_id == "A" and c.connected()]
        run.res["leave"] = [x for x in run.cluster.arrivals if x["req"]["api"] == "LeaveGroup" and x["client"] == "A"
                            and x["reply_obj"] is not None]
        # member ids the coordinator registered for A (successful JoinGroup replies) that are still group members
        mine = {x["reply_obj"].member_id for x in run.cluster.arrivals
                if x["req"]["api"] == "JoinGroup" and x["client"] == "A" and x["reply_obj"] is not None
                and x["reply_obj"].error_code == 0}
        grp = run.cluster.groups.get("g")
        run.res["still_members"] = sorted(mine & set(grp.members)) if grp is not None else []
        try:
            await asyncio.wait_for(a.consumer.getone(), timeout=10)
            run.res["late"] = "returned"
        except asyncio.TimeoutError:
            run.res["late"] = "hangs (no result within 10 s)"
        except E.ConsumerStoppedError:
            run.res["late"] = "ConsumerStoppedError"
        except Exception as e:  # noqa: BLE001
            run.res["late"] = repr(e)
        # stop B, then look at what is left on the loop
        b.alive = False
        if b.app is not None:
            b.app.cancel()
        if b.consumer is not None:
            run.cluster.down = set()
            try:
                await asyncio.wait_for(b.consumer.stop(), timeout=30)
            except (asyncio.TimeoutError, asyncio.CancelledError, Exception):  # noqa: BLE001
                run.res["b_stop_failed"] = True
        run.res["left"] = await _leftovers_settled(loop, run.cluster)

    out = groupsim.run_group(src, cfg, scenario, max_vtime=400)
    run = out["run"]
    res = getattr(run, "res", {})
    info = dict(mode=mode, stop_at=stop_at, mode_at=mode_at, auto_commit=autocommit, static=static_member, group_fault=str(gfault), slow_sync=slow_sync)
    src.note({**info, **{k: v for k, v in res.items() if k not in ("left", "leave")}})
    ok = bool(res.get("stop_returned")) and "deadlock" not in out
    if src.twin:
        ok = not ok
    src.check(ok, "group consumer.stop() did not return: " + str(out.get("deadlock", "")), **info)
    if not res.get("stop_returned"):
        return
    src.check(res["stop_exc"] is None, "consumer.stop() raised " + str(res["stop_exc"]), **info)
    bound = 2 * RT + 1.0 + 1.0  # + rebalance/session timeout
    src.check(res["stop_took"] <= bound, f"consumer.stop() took {res['stop_took']:.2f}s of virtual time (> {bound}s)", **info)
    src.check(not res["conns"], "connections of the stopped member still open", conns=res["conns"], **info)
    src.check(res.get("late") == "ConsumerStoppedError", "getone() after stop() did not raise ConsumerStoppedError: " + str(res.get("late")), **info)
    if not res.get("b_stop_failed"):
        left = res["left"]
        src.check(not left["tasks"], "tasks still running after both members stopped", tasks=left["tasks"][:3], **info)
        src.check(not left["timers"], "timers still armed after both members stopped", timers=left["timers"][:3], **info)
    if mode == "healthy":
        if static_member:
            src.check(not res["leave"], "a static member sent LeaveGroup on stop()", **info)
        elif res["had_generation"]:
            src.check(bool(res["leave"]), "member with a generation stopped on a healthy cluster without leaving the group", **info)
        if not static_member:
            src.check(not res.get("still_members"),
                      "after stop() on a healthy cluster the coordinator still holds a member it registered for this consumer",
                      members=res.get("still_members"), **info)


# ------------------------------------------------------------------------------------------ connection timers


def u1_conn_idle(src):
    """real AIOKafkaConnection with an idle timer over an in-memory transport: close() leaves no timer"""
    from .C12 import make_conn
    from aiokafka.protocol.coordination import FindCoordinatorRequest
    inflight = src.flag("request_in_flight")
    wait = [0.0, 0.6, 1.1, 2.3][src.choice("wait_before_close", 4)]
    res = {}

    async def main(loop):
        closed = []
        conn = make_conn(closed, timeout_ms=60000)
        conn._max_idle_ms = 1000
        import time
        conn._last_action = time.monotonic()
        import weakref
        conn._idle_handle = loop.call_soon(conn._idle_check, weakref.ref(conn))
        waiter = None
        if inflight:
            waiter = asyncio.ensure_future(conn.send(FindCoordinatorRequest("g", 0)))
        await asyncio.sleep(wait)
        was_open = conn.connected()
        conn.close()
        if not conn._closed_fut.done():
            conn._closed_fut.set_result(None)
        await vloop.settle(5)
        if waiter is not None:
            waiter.cancel()
        await vloop.settle(3)
        res["timers"] = [str(h)[:150] for h in loop.live_timers() if "_idle_check" in str(h)]
        res["tasks"] = [str(t.get_coro())[:100] for t in vloop.library_tasks(loop)]
        res["was_open"] = was_open

    vloop.run(main, max_vtime=100)
    ok = not res["timers"]
    if src.twin:
        ok = not ok
    src.check(ok, "an idle-check timer of the connection is still armed after close()", timers=res["timers"][:2],
              inflight=inflight, wait=wait)
    src.check(not res["tasks"], "reader task still alive after close()", tasks=res["tasks"][:2])


class _FakeTransport(asyncio.Transport):
    def __init__(self, loop, protocol):
        super().__init__()
        self._loop, self._protocol = loop, protocol
        self.written = bytearray()
        self.closed = False

    def write(self, data):
        self.written += bytes(data)

    def is_closing(self):
        return self.closed

    def close(self):
        if not self.closed:
            self.closed = True
            self._loop.call_soon(self._protocol.connection_lost, None)

    def abort(self):
        self.close()

    def get_extra_info(self, name, default=None):
        return default

    def get_write_buffer_size(self):
        return 0


def u2_connect_interrupted(src):
    """the real AIOKafkaConnection.connect() over an in-memory transport: while the ApiVersions / SASL exchange
    of a new connection is unanswered the connecting task is cancelled (stop() of the owning client), times out,
    or the broker hangs up: nothing of the half-made connection may stay behind"""
    from aiokafka.conn import AIOKafkaConnection
    how = ["cancelled", "request_timeout", "eof", "answered"][src.choice("handshake_ends_by", 4)]
    idle = src.flag("idle_timer_configured")
    res = {}

    async def main(loop):
        made = []

        async def create_connection(factory, host, port, ssl=None, **kw):
            proto = factory()
            tr = _FakeTransport(loop, proto)
            made.append((tr, proto))
            proto.connection_made(tr)
            return tr, proto
        loop.create_connection = create_connection
        conn = AIOKafkaConnection("fake", 9092, request_timeout_ms=500, max_idle_ms=1000 if idle else None)
        t = asyncio.ensure_future(conn.connect())
        for _ in range(50):
            if made and made[0][0].written:
                break
            await asyncio.sleep(0.001)
        res["request_written"] = bool(made and made[0][0].written)
        if how == "cancelled":
            t.cancel()
        elif how == "eof":
            made[0][1].eof_received()
            made[0][1].connection_lost(None)
        elif how == "answered":
            # ApiVersions v0 reply: correlation id of the request, error 0, empty array
            import struct
            w = bytes(made[0][0].written)
            cid = struct.unpack_from(">i", w, 8)[0]
            body = struct.pack(">ihi", cid, 0, 0)
            made[0][1].data_received(struct.pack(">i", len(body)) + body)
        done, _ = await asyncio.wait([t], timeout=5)
        res["returned"] = bool(done)
        res["outcome"] = ("cancelled" if t.cancelled() else (type(t.exception()).__name__ if t.exception() else "connected")) if done else "pending"
        if done and not t.cancelled() and t.exception() is None:
            conn.close()
        await vloop.settle(10)
        await asyncio.sleep(1.5)
        res["transport_closed"] = made[0][0].closed if made else None
        res["reader_none"] = conn._reader is None
        res["tasks"] = [str(x.get_coro())[:100] for x in vloop.library_tasks(loop)]
        res["timers"] = [str(h)[:120] for h in loop.live_timers() if "/verif/" not in str(h)]

    vloop.run(main, max_vtime=100)
    info = dict(how=how, idle_timer=idle, observed={k: v for k, v in res.items()})
    src.note(info)
    src.check(res.get("returned"), "connect() neither returned nor failed within 5 s", **info)
    ok = bool(res.get("transport_closed")) and not res.get("tasks") and not res.get("timers")
    if src.twin:
        ok = not ok
    src.check(ok, "a connection whose set-up was interrupted (or that was closed right after) leaves its socket, reader task or idle timer behind", **info)


def harnesses(tier):
    q = tier == "quick"
    hs = [Harness(name=f"S1_producer_{n}sends", fn=s1_producer, params={"nsends": n},
                  functions=[AIOKafkaProducer.stop, Sender.close, Sender._sender_routine, AIOKafkaClient.close],
                  shape="S", symbolic_vars="choices: idempotence, cluster mode (healthy / one broker down / all down), when the mode switches, stop() after k sends",
                  bounds={"sends": n, "modes": MODES}, stubs=["SimConn broker model", "virtual-time loop"],
                  max_seconds=400, twin_max_paths=50) for n in ([3] if q else [3, 5])]
    hs.append(Harness(name="S1_producer_after_fatal_error", fn=s1_producer_fatal,
                      functions=[AIOKafkaProducer.stop, Sender.close, Sender._fail_all], shape="S",
                      symbolic_vars="choices: fatal error code (fencing, sequence, transactional-id authorization) at one of the first AddPartitionsToTxn/EndTxn/Produce requests; healthy transaction first or not",
                      bounds={"faultable_requests": 3}, stubs=["SimConn + simulated transaction coordinator", "virtual-time loop"],
                      twin_max_paths=20))
    for shape in (["v2_plain"] if q else ["v2_plain", "txn_mixed"]):
        hs.append(Harness(name=f"S1_consumer_{shape}", fn=s1_consumer, params={"shape": shape},
                          functions=[AIOKafkaConsumer.stop, Fetcher.close, AIOKafkaClient.close], shape="S",
                          symbolic_vars="choices: cluster mode, time of the mode switch, stop() at 7 points of the run (during position lookup, fetch in flight, retry back-off, idle)",
                          bounds={"stop_points": 7, "modes": MODES}, stubs=["SimConn broker model", "virtual-time loop"],
                          max_seconds=400, twin_max_paths=50))
    for static in (False, True):
        hs.append(Harness(name=f"S1_group_{'static' if static else 'dynamic'}", fn=s1_group, params={"static_member": static},
                          functions=[AIOKafkaConsumer.stop, GroupCoordinator.close, GroupCoordinator._maybe_leave_group,
                                     GroupCoordinator.commit_offsets, Fetcher.close, AIOKafkaClient.close],
                          shape="S",
                          symbolic_vars="choices: cluster mode, time of the mode switch, auto-commit on/off, stop() at 7 points (before/while joining, mid-rebalance caused by a second member, stable)",
                          bounds={"stop_points": 7, "modes": MODES}, stubs=["SimConn + simulated group coordinator", "virtual-time loop"],
                          max_seconds=600, twin_max_paths=50))
    hs.append(Harness(name="U2_connect_interrupted", fn=u2_connect_interrupted,
                      functions=[AIOKafkaConnection.connect, AIOKafkaConnection.close], shape="U",
                      symbolic_vars="choices: how the version handshake of a new connection ends (cancelled / request timeout / EOF / answered), idle timer configured or not",
                      bounds={"connections": 1}, stubs=["loop.create_connection returns an in-memory transport", "virtual-time loop"],
                      max_seconds=120, twin_max_paths=20))
    hs.append(Harness(name="U1_conn_idle_timer", fn=u1_conn_idle, functions=[AIOKafkaConnection._idle_check, AIOKafkaConnection.close],
                      shape="U", symbolic_vars="choices: request in flight or not, time before close()",
                      bounds={"waits": [0.0, 0.6, 1.1, 2.3]}, stubs=["in-memory transport", "virtual-time loop"]))
    return hs
