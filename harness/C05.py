"""C05 — group runs of real AIOKafkaConsumer members against the simulated coordinator."""
from symx import Harness

from aiokafka.consumer.consumer import AIOKafkaConsumer
from aiokafka.consumer.fetcher import Fetcher
from aiokafka.consumer.group_coordinator import CoordinatorGroupRebalance, GroupCoordinator
from aiokafka.consumer.subscription_state import SubscriptionState

from . import groupsim
from . import grouporacles as GO

PROP = "C05"


def s1_group(src, nmembers, times, max_faults, assignor):
    cfg = {"member": {"auto_commit": True, "auto_commit_interval_ms": 150, "assignors": [assignor], "max_poll_interval_ms": 300},
           "extra_events": ("pause_poll",), "pause_for": 0.7, "vary_listener_style": True}
    scenario, plan = GO.standard_scenario(src, cfg, nmembers, times, quiet=2.5,
                                          fault_apis=(11, 14, 12), max_fault_requests=4, max_faults=max_faults)
    res = groupsim.run_group(src, cfg, scenario)
    run = res["run"]
    src.note({"plan": GO._plan(run) if hasattr(run, "plan") else None})
    src.check("deadlock" not in res, "group run did not finish in bounded virtual time: " + str(res.get("deadlock")), plan=GO._plan(run))
    if "deadlock" in res or not hasattr(run, "quiet_to"):
        return
    GO.check_c05(src, run, res)


def u1_distribution(src, assignor, max_members, ntopics, max_parts):
    """One generation without the network: the leader's real `_perform_assignment` on the members'
    JoinGroup metadata (every non-empty subscription per member, every partition count), the bytes it
    would put into SyncGroup, and every member's adoption of its bytes through the real
    `SubscriptionState.assign_from_subscribed` (what `_on_join_complete` does first)."""
    import asyncio

    loop = asyncio.new_event_loop()
    try:
        loop.run_until_complete(_u1_distribution(src, loop, assignor, max_members, ntopics, max_parts))
    finally:
        asyncio.set_event_loop(None)
        loop.close()


async def _u1_distribution(src, loop, assignor, max_members, ntopics, max_parts):
    import types

    from aiokafka.coordinator.protocol import ConsumerProtocol
    from aiokafka.structs import TopicPartition

    from . import assignsim as AS
    parts, subs = AS.choose_layout(src, max_members, ntopics, max_parts, allow_no_metadata=False)
    acls = AS.ASSIGNORS[assignor]
    leader_sub = SubscriptionState(loop=loop)
    _real_sub = SubscriptionState.subscribe

    def _subscribe(state, topics):
        _real_sub(state, topics)
    _subscribe(leader_sub, set(subs["m0"]))
    gc = GroupCoordinator.__new__(GroupCoordinator)
    gc._assignors = [acls]
    gc._subscription = leader_sub
    gc._cluster = AS.make_cluster(parts)
    gc.group_id = "g"
    gc._metadata_snapshot = {}
    gc._group_subscription = None

    async def _nowait():
        return None
    gc._client = types.SimpleNamespace(set_topics=lambda topics: None, _maybe_wait_metadata=_nowait, cluster=gc._cluster)
    members = [(m, acls.metadata(set(subs[m])).encode()) for m in subs]
    response = types.SimpleNamespace(group_protocol=acls.name, members=members, API_VERSION=2)
    try:
        try:
            assignments = await gc._perform_assignment(response)
        except (KeyError, ValueError, IndexError, AssertionError, TypeError, StopIteration, RuntimeError) as e:
            src.check(False, f"the leader's assignment step raised {type(e).__name__}: {e}", parts=parts, subs=subs)
            return
    finally:
        pass
    sent ={m: (a.encode() if not isinstance(a, bytes) else a) for m, a in assignments.items()}
    owners = {}
    for m in subs:
        raw = sent.get(m)
        src.check(raw is not None, f"member {m} gets no SyncGroup assignment entry", parts=parts, subs=subs)
        if raw is None:
            continue
        tps = ConsumerProtocol.ASSIGNMENT.decode(raw).partitions()
        for tp in tps:
            ok = tp.topic in subs[m]
            if src.twin and tp.partition == 0:
                ok = not ok
            src.check(ok, f"member {m} is sent {tuple(tp)} of a topic it did not subscribe to", parts=parts, subs=subs)
            src.check(tp not in owners, f"{tuple(tp)} is sent to both {owners.get(tp)} and {m} in one generation", parts=parts, subs=subs)
            owners[tp] = m
        st = SubscriptionState(loop=loop)
        _subscribe(st, set(subs[m]))
        try:
            st.assign_from_subscribed(tps)
        except (ValueError, KeyError, AssertionError) as e:
            src.check(False, f"member {m} cannot adopt the assignment it was sent: {type(e).__name__}: {e}", parts=parts, subs=subs)
            continue
        src.check(set(st.assigned_partitions()) == set(tps), f"member {m}: assignment() differs from what it was sent", parts=parts, subs=subs)
    wanted = {TopicPartition(t, p) for m in subs for t in subs[m] for p in range(parts[t] or 0)}
    src.check(set(owners) == wanted, "the distributed assignments do not cover exactly the subscribed partitions",
              missing=sorted(map(tuple, wanted - set(owners)))[:4], extra=sorted(map(tuple, set(owners) - wanted))[:4], parts=parts, subs=subs)


def harnesses(tier):
    q = tier == "quick"
    us = []
    for asg in ("range", "roundrobin", "sticky"):
        mm, nt, mp = (4, 2, 3) if q else (4, 3, 3)
        us.append(Harness(
            name=f"U1_distribution_{asg}_{mm}m_{nt}t_{mp}p", fn=u1_distribution,
            params={"assignor": asg, "max_members": mm, "ntopics": nt, "max_parts": mp},
            functions=[GroupCoordinator._perform_assignment, SubscriptionState.assign_from_subscribed], shape="U",
            symbolic_vars="finite-domain choices: member count, partitions per topic, every non-empty subscription per member",
            bounds={"members": f"1..{mm}", "topics": nt, "partitions_per_topic": f"0..{mp}"},
            stubs=["client.set_topics/_maybe_wait_metadata are no-ops; cluster metadata built from a MetadataResponse_v1"],
            note="exhaustive enumeration of the layout space by the engine's DFS (no data-symbolic variable); members with "
                 "different subscriptions, which the 2-member group runs of S1 do not reach",
            max_seconds=300 if q else 1200, max_paths=2000000, twin_max_paths=2000))
    confs = [(2, [0.05, 0.3, 0.62], 0, "roundrobin"), (2, [0.3], 0, "range"), (2, [0.3], 0, "sticky"), (2, [0.3], 0, "rrsplit")] if q else \
        [(2, [0.05, 0.2, 0.3, 0.45, 0.62, 0.9], 1, "roundrobin"), (3, [0.05, 0.3, 0.62], 1, "range"), (3, [0.05, 0.3], 0, "sticky")]
    hs = list(us)
    for n, times, mf, asg in confs:
        hs.append(Harness(
            name=f"S1_group_{n}members_{len(times)}times_{mf}faults_{asg}", fn=s1_group,
            params={"nmembers": n, "times": times, "max_faults": mf, "assignor": asg},
            functions=[GroupCoordinator._on_join_prepare, GroupCoordinator._on_join_complete, GroupCoordinator._perform_assignment,
                       GroupCoordinator.ensure_active_group, CoordinatorGroupRebalance._on_join_leader,
                       SubscriptionState.begin_reassignment, SubscriptionState.assign_from_subscribed,
                       Fetcher.fetched_records, Fetcher._fetch_requests_routine],
            shape="S",
            symbolic_vars="choices: join times, membership event (none/stop/crash), victim and time, revoke-listener delay (0 / 150 ms), one JoinGroup/SyncGroup/Heartbeat fault",
            bounds={"members": n, "partitions": 2, "event_times": times, "assignor": asg, "max_faults": mf},
            stubs=["AIOKafkaConnection -> SimConn; group coordinator tables of DESIGN Appendix C (join barrier is the trusted part of the revoke/assign ordering)", "virtual-time event loop"],
            max_seconds=400 if q else 2400, max_paths=200000, twin_max_paths=300))
    return hs
