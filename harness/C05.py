"""C05 — group runs of real AIOKafkaConsumer members against the simulated coordinator."""
from symx import Harness

from aiokafka.consumer.consumer import AIOKafkaConsumer
from aiokafka.consumer.fetcher import Fetcher
from aiokafka.consumer.group_coordinator import CoordinatorGroupRebalance, GroupCoordinator
from aiokafka.consumer.subscription_state import SubscriptionState

from . import groupsim
from . import grouporacles as GO

PROP = "C05"


def s1_group(src, nmembers, times, max_faults, assignor):
    cfg = {"member": {"auto_commit": True, "auto_commit_interval_ms": 150, "assignors": [assignor], "max_poll_interval_ms": 300},
           "extra_events": ("pause_poll",), "pause_for": 0.7, "vary_listener_style": True}
    scenario, plan = GO.standard_scenario(src, cfg, nmembers, times, quiet=2.5,
                                          fault_apis=(11, 14, 12), max_fault_requests=4, max_faults=max_faults)
    res = groupsim.run_group(src, cfg, scenario)
    run = res["run"]
    src.note({"plan": GO._plan(run) if hasattr(run, "plan") else None})
    src.check("deadlock" not in res, "group run did not finish in bounded virtual time: " + str(res.get("deadlock")), plan=GO._plan(run))
    if "deadlock" in res or not hasattr(run, "quiet_to"):
        return
    GO.check_c05(src, run, res)


def harnesses(tier):
    q = tier == "quick"
    confs = [(2, [0.05, 0.3, 0.62], 0, "roundrobin"), (2, [0.3], 0, "range"), (2, [0.3], 0, "sticky"), (2, [0.3], 0, "rrsplit")] if q else \
        [(2, [0.05, 0.2, 0.3, 0.45, 0.62, 0.9], 1, "roundrobin"), (3, [0.05, 0.3, 0.62], 1, "range"), (3, [0.05, 0.3], 0, "sticky")]
    hs = []
    for n, times, mf, asg in confs:
        hs.append(Harness(
            name=f"S1_group_{n}members_{len(times)}times_{mf}faults_{asg}", fn=s1_group,
            params={"nmembers": n, "times": times, "max_faults": mf, "assignor": asg},
            functions=[GroupCoordinator._on_join_prepare, GroupCoordinator._on_join_complete, GroupCoordinator._perform_assignment,
                       GroupCoordinator.ensure_active_group, CoordinatorGroupRebalance._on_join_leader,
                       SubscriptionState.begin_reassignment, SubscriptionState.assign_from_subscribed,
                       Fetcher.fetched_records, Fetcher._fetch_requests_routine],
            shape="S",
            symbolic_vars="choices: join times, membership event (none/stop/crash), victim and time, revoke-listener delay (0 / 150 ms), one JoinGroup/SyncGroup/Heartbeat fault",
            bounds={"members": n, "partitions": 2, "event_times": times, "assignor": asg, "max_faults": mf},
            stubs=["AIOKafkaConnection -> SimConn; group coordinator tables of DESIGN Appendix C (join barrier is the trusted part of the revoke/assign ordering)", "virtual-time event loop"],
            max_seconds=400 if q else 2400, max_paths=200000, twin_max_paths=300))
    return hs
