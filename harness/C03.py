"""C03 — consumer yields each visible record once, in offset order, from its position."""
from symx import Harness

from aiokafka.consumer.consumer import AIOKafkaConsumer
from aiokafka.consumer.fetcher import READ_COMMITTED, READ_UNCOMMITTED, Fetcher, FetchResult, PartitionRecords
from aiokafka.consumer.subscription_state import SubscriptionState, TopicPartitionState

from . import conssim
from . import fetchmodel as FM


def u1_unpack(src, nbatches):
    """one response through PartitionRecords/FetchResult: plain, compacted, empty and control batches,
    fetch offset inside the first batch, every retrieval style"""
    style = ["getall", "getone", "getall1"][src.choice("style", 3)]
    log = FM.build_log(src, nbatches, 1, max_records=2, transactional=True)
    src.note({"kinds": [d["kind"] for d in log["desc"]], "style": style})
    res = FM.run_fetch(src, log, READ_UNCOMMITTED, "getone" if style == "getone" else "getall",
                       1 if style == "getall1" else None)
    FM.check_delivery(src, log, READ_UNCOMMITTED, res)


def s1_program(src, shape, program_len, max_faults, race=False):
    iso = src.choice("isolation", 2)
    cfg = {"isolation": iso, "policy": "earliest"}
    if race:
        cfg["race_ops"] = ("race_seek", "race_pause", "race_oor_seek")
    ends = {k: max((d[2].get("last", d[1][-1] if d[1] else d[2].get("base", 0)) if len(d) > 2 and isinstance(d[1], list)
                    else (d[1][-1] if isinstance(d[1], list) else d[1])) for d in v) + 1 for k, v in conssim.SHAPES.items()}
    log_end = ends[shape]
    cfg["seek_targets"] = sorted({0, 1, log_end // 2, log_end - 1, log_end})
    st = src.choice("start", 3)
    cfg["start"] = [None, 2, 4][st]
    res = conssim.run_consumer(src, shape, cfg, program_len, max_faults=max_faults)
    src.note({"shape": shape, "trace": res.get("trace"), "faults": cfg["faults"].log})
    src.check("deadlock" not in res, "consumer run did not finish in bounded virtual time: " + str(res.get("deadlock")),
              faults=cfg["faults"].log)
    # what stop() leaves behind is C19's subject; it is only recorded here
    src.note({"stop_exc": repr(res.get("stop_exc")), "tasks_left": len(res.get("tasks_left") or [])})


def s2_two_brokers(src):
    """partitions on two brokers, the application blocked in getone(): a record arriving on either partition is
    handed out promptly whatever the other broker answers at the same moment (empty long poll, error, nothing)"""
    import asyncio
    import aiokafka.errors as E
    from aiokafka.structs import TopicPartition
    from env import simkafka, vloop
    from . import grouporacles as GO
    which = src.choice("record_arrives_on_partition", 2)
    delay = [0.0, 0.03, 0.08, 0.12, 0.17, 0.26][src.choice("arrival_delay", 6)]
    other = ["empty_long_poll", "error_reply", "second_record_later"][src.choice("other_broker", 3)]
    style = ["getone", "async_for"][src.choice("style", 2)]
    cluster = simkafka.Cluster(nodes=(0, 1), topics={"t": 2})
    cluster.tick = [None, 0.002][src.choice("replies_delivered_in_bursts", 2)]
    res = {}

    def fault_fn(c, node, req, entry):
        if other == "error_reply" and req.API_KEY == 1 and node == cluster.leader[("t", 1 - which)] and not res.get("fault_used") and res.get("armed"):
            res["fault_used"] = True
            return ("error", 6)
        return None
    cluster.fault_fn = fault_fn

    async def main(loop):
        with simkafka.installed(cluster):
            c = AIOKafkaConsumer(bootstrap_servers="h0:9092", group_id=None, enable_auto_commit=False, auto_offset_reset="earliest",
                                 fetch_max_wait_ms=100, request_timeout_ms=1000, retry_backoff_ms=50)
            await c.start()
            c.assign([TopicPartition("t", 0), TopicPartition("t", 1)])
            res["armed"] = True

            async def take():
                if style == "getone":
                    return await c.getone()
                async for r in c:
                    return r
            t = asyncio.ensure_future(take())
            await asyncio.sleep(delay)
            GO.append_record(cluster, ("t", which))
            t_app = loop.time()
            if other == "second_record_later":
                loop.call_later(0.1, GO.append_record, cluster, ("t", 1 - which))
            try:
                r = await asyncio.wait_for(t, timeout=2.0)
                res["got"] = (r.partition, r.offset, round(loop.time() - t_app, 3))
            except asyncio.TimeoutError:
                res["got"] = None
            except E.KafkaError as e:
                res["exc"] = repr(e)
            res["buffered"] = sorted(str(k) for k in c._fetcher._records) if hasattr(c._fetcher, "_records") else None
            try:
                await asyncio.wait_for(c.stop(), timeout=10)
            except (asyncio.TimeoutError, asyncio.CancelledError, Exception):  # noqa: BLE001
                pass

    try:
        vloop.run(main, max_vtime=120)
    except vloop.Deadlock as e:
        res["deadlock"] = str(e)
    info = dict(partition=which, arrival_delay=delay, other_broker=other, style=style, bursts=cluster.tick, observed=str({k: v for k, v in res.items() if k != "armed"}))
    src.note(info)
    src.check("deadlock" not in res, "consumer run did not finish: " + str(res.get("deadlock")), **info)
    src.check("exc" not in res, "an error was raised to the application: " + str(res.get("exc")), **info)
    ok = res.get("got") is not None and res["got"][:2] == (which, 0)
    if src.twin:
        ok = not ok
    src.check(ok, "a visible record was not handed to the blocked caller within 2 s of its arrival (no fault is active any more)", **info)


def harnesses(tier):
    q = tier == "quick"
    hs = [Harness(
        name="S2_two_brokers_blocked_caller", fn=s2_two_brokers,
        functions=[Fetcher._fetch_requests_routine, Fetcher.next_record, Fetcher.fetched_records], shape="S",
        symbolic_vars="choices: which of two partitions (on two brokers) receives the record, when, what the other broker answers meanwhile, getone() or async-for",
        bounds={"partitions": 2, "brokers": 2, "records": "1..2"},
        stubs=["SimConn broker model", "virtual-time loop"], max_seconds=300, twin_max_paths=200)]
    for nb in ([1, 2] if q else [1, 2, 3]):
        hs.append(Harness(
            name=f"U1_unpack_{nb}batches", fn=u1_unpack, params={"nbatches": nb},
            functions=[PartitionRecords._unpack_records, FetchResult.getone, FetchResult.getall,
                       FetchResult.check_assignment, FetchResult._update_position, TopicPartitionState.consumed_to],
            shape="U",
            symbolic_vars="all offsets (bases, compaction gaps, tails, fetch offset) as unbounded z3 Ints; batch kinds, record counts, retrieval style as choices",
            bounds={"batches": nb, "records_per_batch": "0..2"},
            assumptions=["batch ranges increase; fetch offset inside the first batch (see C08 for the transactional assumptions)"],
            stubs=["record batches replaced by stub objects"], max_seconds=300))
    shapes = ["v2_plain", "v2_compaction", "v2_control", "v1_mixed", "v0_wrapper", "txn_mixed", "txn_open", "gz_v2", "legacy_null_records"]
    if q:
        confs = [(s, 2, 0) for s in shapes] + [("v2_compaction", 2, 1), ("v1_mixed", 2, 1)]
    else:
        confs = [(s, 3, 1) for s in shapes] + [("txn_same_pid", 3, 1), ("v2_control", 4, 1), ("v1_mixed", 3, 2)]
    confs = [c + (False,) for c in confs] + ([("v2_plain", 1, 0, True), ("v1_mixed", 1, 0, True)] if q else
                                            [("v2_plain", 2, 1, True), ("v1_mixed", 2, 0, True), ("txn_mixed", 2, 0, True)])
    for shape, plen, mf, race in confs:
        hs.append(Harness(
            name=f"S1_program_{shape}_{plen}calls_{mf}faults{'_race' if race else ''}", fn=s1_program,
            params={"shape": shape, "program_len": plen, "max_faults": mf, "race": race},
            functions=[AIOKafkaConsumer.getone, AIOKafkaConsumer.getmany, AIOKafkaConsumer.seek, AIOKafkaConsumer.position,
                       AIOKafkaConsumer.pause, AIOKafkaConsumer.resume, Fetcher._fetch_requests_routine,
                       Fetcher._proc_fetch_request, Fetcher._get_actions_per_node, Fetcher.next_record,
                       Fetcher.fetched_records, Fetcher._update_fetch_positions, PartitionRecords._unpack_records],
            shape="S",
            symbolic_vars="choices: isolation level, start position, program of calls over {getone, getmany, getmany(max_records=1), seek(o), pause, resume, position}, response cut (all batches / one batch per response), fault kind at each of the first fetch/list-offsets/metadata requests",
            bounds={"log_shape": shape, "calls": plen, "max_faults": mf, "fault_menu": [str(f) for f in conssim.CONSUMER_FAULTS]},
            stubs=["AIOKafkaConnection -> SimConn (env/simkafka.py)", "virtual-time event loop",
                   "partition logs encoded by the independent reference codec (specs/refcodec.py)"],
            max_seconds=200 if q else 1500, max_paths=3000000, twin_max_paths=3000))
    return hs
