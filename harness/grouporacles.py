"""Scenario generator and oracles for group runs (C04, C05, C06 share one kind of run)."""
import asyncio

from aiokafka.structs import TopicPartition

from env import simkafka
from specs import refcodec as R
from . import groupsim

GROUP_APIS = {8: "OffsetCommit", 9: "OffsetFetch", 10: "FindCoordinator", 11: "JoinGroup", 12: "Heartbeat",
              13: "LeaveGroup", 14: "SyncGroup"}
COORD_FAULTS = ["none", ("error", 15), ("error", 16), ("error", 14), ("error", 25), ("error", 22), ("error", 27),
                "drop_before", "timeout_before"]


class GroupFaults:
    """<= max_faults faults at one of the first max_requests group requests of the chosen kinds"""

    def __init__(self, src, apis, max_requests, max_faults, by_api=False):
        self.src, self.apis, self.max_requests, self.max_faults = src, apis, max_requests, max_faults
        self.seen = self.used = 0
        self.enabled = False
        self.log = []
        # by_api: the fault hits the n-th request of one API from one client (reaches the requests of a re-join,
        # which the "first k requests" placement never gets to because heartbeats use the budget up)
        self.target = None
        self.counts = {}
        if by_api and max_faults and apis:
            al = sorted(apis)
            self.target = (al[src.choice("gfault_api", len(al))], 1 + src.choice("gfault_nth", 3), ["A", "B"][src.choice("gfault_client", 2)])

    def __call__(self, cluster, node, req, entry):
        if not self.enabled or req.API_KEY not in self.apis:
            return None
        if self.target is not None:
            key = (entry["client"], req.API_KEY)
            self.counts[key] = self.counts.get(key, 0) + 1
            if self.used or (req.API_KEY, self.counts[key], entry["client"]) != self.target:
                return None
            self.seen = self.counts[key]
        else:
            self.seen += 1
            if self.seen > self.max_requests or self.used >= self.max_faults:
                return None
        # only error codes a Kafka coordinator returns for that API (GroupCoordinator.scala, 2.8)
        codes = {8: (14, 15, 16, 25, 22, 27), 9: (14, 16), 10: (15,), 11: (14, 15, 16, 25), 12: (15, 16, 25, 22, 27),
                 14: (15, 16, 25, 22, 27)}[req.API_KEY]
        menu = ["none"] + [("error", c) for c in codes] + ["drop_before", "timeout_before"]
        if req.API_KEY in (11, 12, 14):
            menu.append("wipe_state")  # coordinator failed over without the group's state
        if self.target is not None:
            menu = menu[1:]
        f = menu[self.src.choice(f"gfault{self.seen}", len(menu))]
        if f == "none":
            return None
        self.used += 1
        self.log.append((round(asyncio.get_event_loop().time(), 3), self.seen, GROUP_APIS.get(req.API_KEY), f, entry["client"]))
        if f == "wipe_state":
            g = cluster.group(req.group)
            for m in g.members.values():
                for k in ("join_fut", "sync_fut"):
                    if m.get(k) is not None and not m[k].done():
                        m[k].set_result((16, -1, "", "", "", []) if k == "join_fut" else (16, b""))
            g.members.clear()
            g.pending_ids.clear()
            g.state = "Empty"
            g.leader = None
            cluster.group_events.append((asyncio.get_event_loop().time(), g.gid, "state_lost"))
            return None  # the request itself is then handled by the empty coordinator
        return f


def append_record(cluster, tp):
    log = cluster.logs[tp]
    i = log.next_offset
    key = b"%s-%d-%d" % (tp[0].encode(), tp[1], i)
    recs = [dict(offset=i, timestamp=1000 + i, key=key, value=b"v", headers=[])]
    log.prefill(R.encode_v2(i, recs), i, i, [(i, key, b"v", (), 1000 + i)])


def standard_scenario(src, cfg, nmembers, event_times, quiet=3.0, fault_apis=(), max_fault_requests=0, max_faults=0, faults_by_api=False):
    """Members A (and B, C) join at chosen times; one membership event (stop / crash / nothing) hits one
    member at a chosen time; a background writer appends records; then a quiet period."""
    plan = {}
    plan["join_B"] = event_times[src.choice("join_B_at", len(event_times))] if nmembers >= 2 else None
    plan["join_C"] = event_times[src.choice("join_C_at", len(event_times))] if nmembers >= 3 else None
    evs = ["none", "stop", "crash"] + list(cfg.get("extra_events", ()))
    ev = evs[src.choice("event", len(evs))]
    plan["event"] = ev
    if ev != "none":
        plan["victim"] = ["A", "B", "C"][src.choice("victim", nmembers)] if ev in ("stop", "crash", "pause_poll", "cut_off_from_coordinator") else "A"
        plan["event_at"] = event_times[src.choice("event_at", len(event_times))] + 0.02
    plan["listener_delay"] = [0.0, 0.15][src.choice("listener_delay", 2)]
    plan["listener_style"] = ["async", "delegating", "sync"][src.choice("listener_style", 3)] if cfg.get("vary_listener_style") else "async"
    # slow SyncGroup replies (a metadata refresh or another event can land while it is in flight)
    plan["sync_delay"] = [0.0, 0.25][src.choice("sync_delay", 2)] if cfg.get("vary_sync_delay") else 0.0
    # partition t-1 without a leader until an election finishes (its position lookup starts later)
    plan["leaderless_until"] = [None, 0.36, 0.5][src.choice("leaderless_until", 3)] if cfg.get("vary_leaderless") else None
    plan["offset_fetch_delay"] = ([0.0, 0.3][src.choice("offset_fetch_delay", 2)]
                                  if plan["leaderless_until"] is not None else 0.0)
    faults = GroupFaults(src, set(fault_apis), max_fault_requests, max_faults, by_api=faults_by_api)
    plan["faults"] = faults
    plan["heartbeat_delay"] = [0.0, 0.45][src.choice("heartbeat_reply_takes", 2)] if cfg.get("vary_heartbeat_delay") else 0.0

    async def scenario(run, loop):
        run.isolated = {}

        def fault_fn(cluster, node, req, entry):
            until = run.isolated.get(entry["client"])
            if until is not None and loop.time() < until and req.API_KEY in (8, 9, 10, 11, 12, 13, 14):
                return "drop_before"  # the member cannot reach the coordinator (the partition leaders it can)
            return faults(cluster, node, req, entry)
        run.cluster.fault_fn = fault_fn
        run.plan = plan
        run.cluster.sync_delay = plan["sync_delay"]
        run.cluster.heartbeat_delay = plan["heartbeat_delay"]
        run.cluster.offset_fetch_delay = plan["offset_fetch_delay"]
        if plan["leaderless_until"] is not None:
            # t-1 loses its leader just before the second member joins (so the rebalance hands it over
            # while it is leaderless) and gets it back a little later
            tp1 = ("t", 1)
            real = run.cluster.leader[tp1]
            t_lose = max(0.0, (plan["join_B"] or 0.3) - 0.03)

            def lose():
                run.cluster.leader[tp1] = -1

            def elect():
                run.cluster.leader[tp1] = real
            loop.call_later(t_lose, lose)
            loop.call_later(t_lose + (plan["leaderless_until"] - 0.3), elect)
        names = ["A", "B", "C"][:nmembers]
        ms = {n: run.member(n, listener_delay=plan["listener_delay"], listener_style=plan["listener_style"]) for n in names}
        writer_on = [True]

        async def writer():
            k = 0
            while writer_on[0]:
                await asyncio.sleep(0.13)
                for tp in sorted(run.cluster.logs):
                    if run.cluster.logs[tp].next_offset < cfg.get("max_records_per_partition", 8):
                        append_record(run.cluster, tp)
                k += 1

        wt = asyncio.ensure_future(writer())
        timeline = [(0.0, "start", "A")]
        if plan["join_B"] is not None:
            timeline.append((plan["join_B"], "start", "B"))
        if plan["join_C"] is not None:
            timeline.append((plan["join_C"], "start", "C"))
        if ev != "none":
            timeline.append((plan["event_at"], ev, plan["victim"]))
        timeline.sort(key=lambda x: x[0])
        t0 = loop.time()
        pending = []
        faults.enabled = True
        for at, what, who in timeline:
            dt = t0 + at - loop.time()
            if dt > 0:
                await asyncio.sleep(dt)
            m = ms[who]
            if what == "start":
                pending.append(asyncio.ensure_future(m.start()))
            elif what == "stop":
                if m.consumer is not None and m.alive:
                    pending.append(asyncio.ensure_future(m.stop()))
            elif what == "crash":
                if m.consumer is not None and m.alive:
                    m.crash()
            elif what == "cut_off_from_coordinator":
                # for longer than the session timeout the member's group requests get nowhere: it is evicted,
                # others take its partitions over, later it comes back
                if m.consumer is not None and m.alive:
                    run.isolated[m.name] = loop.time() + cfg.get("cut_off_for", 1.6)
                    m.events.append((loop.time(), "cut_off_from_coordinator"))
            elif what == "pause_poll":
                # the application stops polling for longer than max.poll.interval: the member leaves the group
                if m.consumer is not None and m.alive:
                    m.pause_polling(cfg.get("pause_for", 0.7))
            elif what == "grow":
                # the topic gets one more partition (clients notice at their next metadata refresh)
                n = run.cluster.topics["t"]
                run.cluster.topics["t"] = n + 1
                run.cluster.logs[("t", n)] = simkafka.PartitionLog(run.cluster, "t", n)
                run.cluster.leader[("t", n)] = run.cluster.nodes[n % len(run.cluster.nodes)]
                append_record(run.cluster, ("t", n))
        active = max(t for t, _, _ in timeline) + 0.3
        if ev == "cut_off_from_coordinator":
            active += cfg.get("cut_off_for", 1.6) + 0.8  # records keep arriving while the member is away and after it is back
        await asyncio.sleep(max(0.0, t0 + active - loop.time()))
        writer_on[0] = False
        run.quiet_from = loop.time()
        faults.enabled = False
        await asyncio.sleep(quiet)
        for p in pending:
            if not p.done():
                # a start()/stop() still running after the quiet period is reported by the oracles
                run.stuck = getattr(run, "stuck", []) + [p]
        run.quiet_to = loop.time()
        run.final_generation = run.cluster.group(run.gid).generation
        run.final_state = run.cluster.group(run.gid).state
        run.final_members = dict(run.cluster.group(run.gid).members)
        run.final_assignment = {n: (sorted(m.consumer.assignment()) if m.consumer is not None and m.alive else None)
                                for n, m in ms.items()}
        run.final_member_gen = {n: (m.consumer._coordinator.generation if m.consumer is not None and m.alive and hasattr(m.consumer._coordinator, "generation") else None)
                                for n, m in ms.items()}
        # graceful shutdown of the survivors
        for n, m in ms.items():
            if m.alive:
                await m.stop()
        wt.cancel()

    return scenario, plan


# ------------------------------------------------------------------------------------------ oracles


def member_ids(run):
    """client name -> set of member ids it used (from the arrival log)"""
    out = {}
    for a in run.cluster.arrivals:
        if a["req"]["api"] in ("JoinGroup", "SyncGroup", "Heartbeat") and a["req"].get("member_id"):
            out.setdefault(a["client"], set()).add(a["req"]["member_id"])
        if a["req"]["api"] == "JoinGroup" and a["reply_obj"] is not None and a["reply_obj"].error_code in (0, 79):
            out.setdefault(a["client"], set()).add(a["reply_obj"].member_id)
    return out


def visible(run, tp):
    return [r[0] for r in run.cluster.logs[tp].visible_records(0)]


def check_c05(src, run, res):
    g = run.cluster.group(run.gid)
    ids = member_ids(run)
    owner_of = {mid: name for name, s in ids.items() for mid in s}
    hist = run.decoded_history()
    subs = {n: set(m.cfg.get("topics", ["t"])) for n, m in run.members.items()}
    all_parts = set(run.cluster.logs)
    # (a) per generation: pairwise disjoint, within subscription
    for gen, dec, members in hist:
        seen = {}
        for mid, tps in dec.items():
            name = owner_of.get(mid)
            for tp in tps:
                src.check(tp not in seen, f"generation {gen}: partition {tp} assigned to two members", gen=gen)
                seen[tp] = mid
                src.check(tp in all_parts, f"generation {gen}: unknown partition {tp} assigned")
                if name:
                    src.check(tp[0] in subs[name], f"generation {gen}: member {name} got a partition of an unsubscribed topic")
    # (a') adopted == distributed: every assign callback reports exactly what SyncGroup distributed
    stable_times = [(e[0], e[3]) for e in run.cluster.group_events if e[2] == "stable"]
    for name, m in run.members.items():
        for ev in m.events:
            if ev[1] != "assign_start":
                continue
            t, assigned, adopted = ev[0], ev[2], ev[4]
            got = {(tp.topic, tp.partition) for tp in assigned}
            src.check(got == {(tp.topic, tp.partition) for tp in adopted},
                      f"member {name}: assignment() differs from what on_partitions_assigned was given")
            # the latest generation stabilised before t in which this member took part
            cands = [(gen, dec) for (gen, dec, members) in hist
                     if any(owner_of.get(mid) == name for mid in dec) and any(st <= t + 1e-9 and sg == gen for st, sg in stable_times)]
            if cands:
                gen, dec = cands[-1]
                sent = set()
                for mid, tps in dec.items():
                    if owner_of.get(mid) == name:
                        sent |= tps
                ok = got == sent
                if src.twin:
                    ok = not ok
                src.check(ok, f"member {name}: adopted assignment differs from the one distributed for generation {gen}",
                          adopted=sorted(got), sent=sorted(sent), plan=_plan(run))
    # (b) silent between revoke start and the next assignment
    for name, m in run.members.items():
        for d in m.deliveries:
            t, topic, p, off, revoking, epoch = d
            src.check(TopicPartition(topic, p) not in revoking,
                      f"member {name} delivered a record of {topic}-{p} after on_partitions_revoked began", offset=off, plan=_plan(run))
    # (b') a member that left the group (LeaveGroup accepted by the coordinator, e.g. after max.poll.interval
    #      without a poll) delivers nothing until it has been given partitions again
    for name, m in run.members.items():
        leaves = sorted(e[0] for e in run.cluster.group_events if e[2] == "leave" and owner_of.get(e[3]) == name)
        assigns = sorted(e[0] for e in m.events if e[1] == "assign_start")
        for d in m.deliveries:
            t = d[0]
            before = [x for x in leaves if x < t - 1e-9]
            if not before:
                continue
            tl = before[-1]
            ok = any(tl < a <= t + 1e-9 for a in assigns)
            src.check(ok, f"member {name} delivered a record of {d[1]}-{d[2]} after it had left the group (LeaveGroup at {tl:.3f}) "
                      "and before it was assigned partitions again", offset=d[3], at=round(t, 3), plan=_plan(run))
    # (c') between two assignments of a member its on_partitions_revoked ran to completion (whatever kind of
    #      callable the listener uses: async def, plain def, plain def returning a coroutine)
    for name, m in run.members.items():
        assigns = [e[0] for e in m.events if e[1] == "assign_start"]
        owned = [e[2] for e in m.events if e[1] == "assign_start"]
        ends = [e[0] for e in m.events if e[1] == "revoke_end"]
        for k, (a0, a1) in enumerate(zip(assigns, assigns[1:])):
            if not owned[k]:
                continue  # nothing was owned, nothing to give up
            ok = any(a0 < t <= a1 + 1e-9 for t in ends)
            src.check(ok, f"member {name}: on_partitions_assigned was called again (at {a1:.3f}) without its on_partitions_revoked "
                      "having run to completion since the previous assignment", plan=_plan(run))
    # (c) all revoke callbacks of a rebalance finish before any assign callback of the resulting generation
    for i, (ts, gen) in enumerate(stable_times):
        nxt = stable_times[i + 1][0] if i + 1 < len(stable_times) else float("inf")
        entry = [h for h in hist if h[0] == gen]
        if not entry:
            continue
        names = {owner_of.get(mid) for mid in entry[0][1]} - {None}
        assigns, revokes = [], []
        for name in names:
            m = run.members[name]
            a = [e[0] for e in m.events if e[1] == "assign_start" and ts - 1e-9 <= e[0] < nxt]
            if not a:
                continue
            assigns.append(a[0])
            r = [e[0] for e in m.events if e[1] == "revoke_end" and e[0] <= a[0]]
            rs = [e[0] for e in m.events if e[1] == "revoke_start" and e[0] <= a[0]]
            if rs and (not r or r[-1] < rs[-1]):
                src.check(False, f"member {name}: assign callback started while its revoke callback was still running")
            if r:
                revokes.append(r[-1])
        if assigns and revokes:
            src.check(max(revokes) <= min(assigns) + 1e-9,
                      f"generation {gen}: an on_partitions_assigned started before every member's on_partitions_revoked finished",
                      plan=_plan(run))


def check_c04(src, run, res):
    g = run.cluster.group(run.gid)
    deliveries = {}
    for name, m in run.members.items():
        for d in m.deliveries:
            deliveries.setdefault((d[1], d[2]), []).append((d[0], d[3], name, d[5]))
    # (a) a committed offset never passes a visible record that has not been handed out
    for (t, mid, gen, topic, p, off, ok) in g.commits:
        if not ok:
            continue
        vis = visible(run, (topic, p))
        for o in vis:
            if o < off:
                was = any(dt <= t + 1e-9 and do == o for (dt, do, _, _) in deliveries.get((topic, p), []))
                src.check(was, f"offset {off} committed for {topic}-{p} although record {o} had not been handed to the application",
                          member=mid, time=round(t, 3), plan=_plan(run))
    # (c) a (re)delivery only at or above the committed offset the owner was given
    for name, m in run.members.items():
        for d in m.deliveries:
            t, topic, p, off, _, epoch = d
            given = m.given.get((topic, p, epoch))
            if given is not None and given >= 0:
                src.check(off >= given, f"member {name} delivered offset {off} of {topic}-{p} below the committed offset {given} it was given",
                          plan=_plan(run))
        # no skipping: the first record delivered in an assignment epoch is the first visible one at/after the given offset
        first = {}
        for d in m.deliveries:
            first.setdefault((d[1], d[2], d[5]), d[3])
        for (topic, p, epoch), off in first.items():
            given = m.given.get((topic, p, epoch))
            start = given if (given is not None and given >= 0) else 0
            vis = [o for o in visible(run, (topic, p)) if o >= start]
            want = vis[0] if vis else None
            if src.twin and want is not None:
                want += 1
            src.check(want is None or off == want,
                      f"member {name}: first record of {topic}-{p} after taking it over is {off}, expected {want} (committed offset given: {given})",
                      plan=_plan(run))
    # (b) at least once
    alive = [n for n, m in run.members.items() if m.consumer is not None and not m.crashed and m.stop_result is not None and m.stop_result[0] == "ok"]
    any_survivor = any(run.final_assignment.get(n) for n in run.members)
    if any_survivor:
        for tp in run.cluster.logs:
            for o in visible(run, tp):
                src.check(any(do == o for (_, do, _, _) in deliveries.get(tp, [])),
                          f"record {o} of {tp} was never delivered to any member although the group had live members during a {run.quiet_to - run.quiet_from:.0f}s quiet period",
                          plan=_plan(run))


def check_c06(src, run, res, assignors):
    g = run.cluster.group(run.gid)
    want_protocols = list(assignors)
    faulted_clients = {f[4] for f in run.plan["faults"].log}
    per_client = {}
    for a in run.cluster.arrivals:
        if a["req"]["api"] in ("JoinGroup", "SyncGroup"):
            per_client.setdefault(a["client"], []).append(a)
    for client, reqs in per_client.items():
        for i, a in enumerate(reqs):
            if a["req"]["api"] != "JoinGroup":
                continue
            got = a["req"]["protocols"]
            ok = got == want_protocols
            if src.twin:
                ok = not ok
            src.check(ok, "JoinGroup does not advertise all configured assignment strategies in preference order",
                      advertised=got, configured=want_protocols)
            r = a["reply_obj"]
            if r is None or r.error_code != 0:
                continue
            nxt = reqs[i + 1] if i + 1 < len(reqs) else None
            m = run.members.get(client)
            interrupted = client in faulted_clients or (m is not None and (m.crashed or any(e[1] == "stop_called" and e[0] <= (nxt["time"] if nxt else 1e9) for e in m.events)))
            if nxt is None:
                src.check(interrupted or a["reply_time"] is None or a["reply_time"] > run.quiet_to - 0.5,
                          f"{client}: successful JoinGroup (generation {r.generation_id}) was never followed by a SyncGroup")
                continue
            if interrupted:
                continue
            src.check(nxt["req"]["api"] == "SyncGroup" and nxt["req"]["generation"] == r.generation_id and nxt["req"]["member_id"] == r.member_id,
                      f"{client}: successful JoinGroup reply (generation {r.generation_id}) followed by {nxt['req']['api']} "
                      f"(generation {nxt['req'].get('generation')}, member {nxt['req'].get('member_id')}) instead of its SyncGroup",
                      plan=_plan(run))
    # convergence after the quiet period
    live = [n for n, m in run.members.items() if m.consumer is not None and not m.crashed
            and not any(e[1] == "stop_called" and e[0] < run.quiet_to for e in m.events)]
    src.check(not getattr(run, "stuck", None), "a start()/stop() call was still running after the quiet period", plan=_plan(run))
    if live:
        src.check(run.final_state == "Stable", f"group not stable after a {run.quiet_to - run.quiet_from:.0f}s quiet period (state {run.final_state})",
                  plan=_plan(run))
        for n in live:
            src.check(run.final_member_gen.get(n) == run.final_generation,
                      f"member {n} is at generation {run.final_member_gen.get(n)}, the group at {run.final_generation}", plan=_plan(run))
        covered = set()
        for n in live:
            for tp in run.final_assignment.get(n) or []:
                covered.add((tp.topic, tp.partition))
        src.check(covered == set(run.cluster.logs), "assignments do not cover every partition of the subscribed topics after the quiet period",
                  covered=sorted(covered), plan=_plan(run))
        if not run.plan["faults"].log:
            # fault-free run: every generation is accounted for by an environment event (a member starting,
            # the planned stop / crash / partition-count change); a rebalance beyond that was caused by a
            # member itself although nothing changed
            gens = [e for e in run.cluster.group_events if e[2] == "generation"]
            started = sum(1 for m in run.members.values() if m.consumer is not None)
            bound = started + (1 if run.plan.get("event", "none") != "none" else 0)
            if src.twin:
                bound = 0
            src.check(len(gens) <= bound,
                      f"{len(gens)} generations although only {bound} environment events (joins, leave/crash, topic change) occurred and no fault was injected: "
                      "a member caused a rebalance by itself", generations=[(round(e[0], 3), e[3], e[4]) for e in gens][:8], plan=_plan(run))
        late = [a for a in run.cluster.arrivals if a["req"]["api"] == "JoinGroup" and run.quiet_to - 1.5 < a["time"] < run.quiet_to]
        src.check(not late, "a member re-joined during the quiet period although nothing changed", n=len(late), plan=_plan(run))
        ids = member_ids(run)
        for n in live:
            hb = [a for a in run.cluster.arrivals if a["req"]["api"] == "Heartbeat" and a["client"] == n and a["time"] > run.quiet_to - 0.5]
            src.check(bool(hb), f"member {n} stopped heartbeating", plan=_plan(run))


def _plan(run):
    p = dict(run.plan)
    f = p.pop("faults", None)
    p["faults"] = f.log if f is not None else []
    return p
