"""C11 — API messages encode to the Kafka wire format and negotiate versions safely."""
import importlib
import inspect
import pkgutil

from symx import Harness, SymInt, s_and
from symx import shims
from symx.shims import SymBuf, SymReader

import aiokafka.protocol as PROTO
import aiokafka.protocol.types as T
from aiokafka.errors import IncompatibleBrokerVersion
from aiokafka.protocol.api import Request, RequestStruct, Response

from .common import patched

_FIXED = {"Int8": (T.Int8, 8, True), "Int16": (T.Int16, 16, True), "Int32": (T.Int32, 32, True),
          "UInt32": (T.UInt32, 32, False), "Int64": (T.Int64, 64, True)}


def _isinstance(obj, cls):
    """isinstance as seen by the module under test: proxies count as the type they stand for."""
    if isinstance(obj, SymInt):
        return isinstance(0, cls)
    if isinstance(obj, SymBuf):
        return isinstance(b"", cls)
    return isinstance(obj, cls)


class _Env:
    """Install the struct shim in protocol.types, built from the format strings the code itself uses."""

    def __enter__(self):
        self.saved = []
        for cls in (T.Int8, T.Int16, T.Int32, T.UInt32, T.Int64, T.Boolean):
            fmt = cls._pack.__self__.format  # the real code's format string
            st = shims.Struct(fmt)
            self.saved.append((cls, cls._pack, cls._unpack))
            cls._pack = st.pack
            cls._unpack = st.unpack
        self.saved_mod = (T.struct, getattr(T, "isinstance", None))
        T.struct = shims.struct_module
        T.isinstance = _isinstance
        return self

    def __exit__(self, *a):
        for cls, p, u in self.saved:
            cls._pack, cls._unpack = p, u
        T.struct = self.saved_mod[0]
        if self.saved_mod[1] is None:
            del T.isinstance
        else:
            T.isinstance = self.saved_mod[1]


def _ref_uvarint(n):
    """unsigned LEB128 (Kafka protocol guide: UNSIGNED_VARINT)"""
    out = []
    while True:
        b = n & 0x7F
        n >>= 7
        if n:
            out.append(b | 0x80)
        else:
            out.append(b)
            return out


def _items(x):
    return list(x.b) if isinstance(x, SymBuf) else list(x)


def _check_leb128(src, bs, want, what):
    n = len(bs)
    src.check(1 <= n <= 5, f"{what}: length not in 1..5")
    acc = 0
    for i, b in enumerate(bs):
        src.check(s_and(b >= 0, b <= 255), f"{what}: byte out of range")
        if i < n - 1:
            src.check((b & 0x80) == 0x80, f"{what}: continuation bit missing")
        else:
            src.check((b & 0x80) == 0, f"{what}: continuation bit on last byte")
        acc = acc + ((b & 0x7F) << (7 * i))
    src.check(acc == want, f"{what}: payload is not the unsigned LEB128 of the value")
    if n > 1:
        src.check((bs[-1] & 0x7F) != 0, f"{what}: not minimal")


def k1_fixed(src, kind):
    cls, bits, signed = _FIXED[kind]
    lo, hi = (-(1 << (bits - 1)), (1 << (bits - 1)) - 1) if signed else (0, (1 << bits) - 1)
    v = src.int("v", lo - 2, hi + 2)
    with _Env():
        try:
            enc = cls.encode(v)
        except ValueError:
            src.check(s_and(v >= lo, v <= hi) == False, f"{kind}.encode rejected an in-range value")  # noqa: E712
            return
        src.check(s_and(v >= lo, v <= hi), f"{kind}.encode accepted an out-of-range value")
        bs = _items(enc)
        src.check(len(bs) == bits // 8, f"{kind} encodes to the wrong number of bytes")
        acc = 0
        for b in bs:
            acc = (acc << 8) + b
        want = v & ((1 << bits) - 1)
        if src.twin:
            want = want ^ 1
        src.check(acc == want, f"{kind} is not big-endian two's complement on the wire")
        rd = SymReader(SymBuf(bs + [src.byte("trail")]))
        got = cls.decode(rd)
        src.check(got == v, f"{kind}.decode(encode(v)) != v")
        src.check(rd.pos == bits // 8, f"{kind}.decode consumed the wrong number of bytes")


def k1_uvarint(src):
    v = src.int("v", 0, 0xFFFFFFFF)
    with _Env():
        enc = _items(T.UnsignedVarInt32.encode(v))
        _check_leb128(src, enc, (v ^ 1) if src.twin else v, "UnsignedVarInt32")
        rd = SymReader(SymBuf(enc + [src.byte("trail")]))
        got = T.UnsignedVarInt32.decode(rd)
        src.check(got == v, "UnsignedVarInt32.decode(encode(v)) != v")
        src.check(rd.pos == len(enc), "UnsignedVarInt32.decode consumed the wrong number of bytes")


def _type_used(typ):
    """is this primitive referenced by the schema of any request/response struct?"""
    from aiokafka.protocol.struct import Struct

    def walk(f):
        if f is typ or isinstance(f, type) and isinstance(typ, type) and f is typ:
            return True
        if isinstance(f, T.Schema):
            return any(walk(x) for x in f.fields)
        if isinstance(f, T.Array):
            return walk(f.array_of)
        return False

    seen, todo = set(), [Struct]
    while todo:
        c = todo.pop()
        for sc in c.__subclasses__():
            if sc not in seen:
                seen.add(sc)
                todo.append(sc)
    return any(walk(c.SCHEMA) for c in seen if isinstance(getattr(c, "SCHEMA", None), T.Schema))


def k1_varint32(src):
    if not _type_used(T.VarInt32) and not src.twin:
        # no request/response schema uses VarInt32, so it is outside C11's statement
        # ("for every request and response type"); its encoder is wrong for negative values
        # (noted in DESIGN.md), but that is not reported as a violation of C11.
        src.check(True, "VarInt32 unused by any schema: informational only")
        src.choice("unused", 2)
        return
    v = src.int("v", -(2 ** 31), 2 ** 31 - 1)
    with _Env():
        enc = _items(T.VarInt32.encode(v))
        zz = ((v << 1) ^ (v >> 31)) & 0xFFFFFFFF
        _check_leb128(src, enc, (zz ^ 1) if src.twin else zz, "VarInt32 (zig-zag)")
        rd = SymReader(SymBuf(enc + [src.byte("trail")]))
        got = T.VarInt32.decode(rd)
        src.check(got == v, "VarInt32.decode(encode(v)) != v")
        src.check(rd.pos == len(enc), "VarInt32.decode consumed the wrong number of bytes")


_STRINGS = [None, "", "a", "é", "ab", "x" * 126, "x" * 127, "x" * 128, "€" * 43, "y" * 300]
_BLENS = [None, 0, 1, 2, 126, 127, 128, 300]


def k1_string(src, compact):
    s = _STRINGS[src.choice("string", len(_STRINGS))]
    typ = T.CompactString("utf-8") if compact else T.String("utf-8")
    with _Env():
        enc = _items(typ.encode(s))
        raw = None if s is None else s.encode("utf-8")
        if compact:
            want = _ref_uvarint(0 if raw is None else len(raw) + 1) + list(raw or b"")
        else:
            n = -1 if raw is None else len(raw)
            want = list((n & 0xFFFF).to_bytes(2, "big")) + list(raw or b"")
        if src.twin:
            want = want + [0]
        src.check(enc == want, "string layout differs from the protocol guide (length prefix + utf-8 bytes)",
                  compact=compact, value=s)
        rd = SymReader(SymBuf(enc + [src.byte("trail")]))
        got = typ.decode(rd)
        src.check(got == s, "string decode(encode(s)) != s")
        src.check(rd.pos == len(enc), "string decode consumed the wrong number of bytes")


def k1_bytes(src, compact):
    n = _BLENS[src.choice("len", len(_BLENS))]
    cls = T.CompactBytes if compact else T.Bytes
    with _Env():
        val = None if n is None else SymBuf(src.bytes("b", min(n, 3)) + [7] * max(n - 3, 0), False)
        if n == 0:
            val = b""
        enc = _items(cls.encode(val))
        body = [] if val is None else _items(val)
        if compact:
            want = _ref_uvarint(0 if n is None else n + 1) + body
        else:
            want = list(((-1 if n is None else n) & 0xFFFFFFFF).to_bytes(4, "big")) + body
        if src.twin:
            want = [1] + want
        src.check(len(enc) == len(want) and s_and(*[a == b for a, b in zip(enc, want)]),
                  "bytes layout differs from the protocol guide (length prefix + raw bytes)", compact=compact, n=n)
        rd = SymReader(SymBuf(enc + [src.byte("trail")]))
        got = cls.decode(rd)
        if n is None:
            src.check(got is None, "null bytes did not decode to None")
        else:
            src.check(got is not None and len(got) == n and (SymBuf(got) == SymBuf(body)), "bytes decode(encode(b)) != b")
        src.check(rd.pos == len(enc), "bytes decode consumed the wrong number of bytes")


def k1_array(src, compact):
    n = [None, 0, 1, 2, 127][src.choice("len", 5)]
    typ = T.CompactArray(T.Int32) if compact else T.Array(T.Int32)
    with _Env():
        items = None if n is None else [src.int(f"item{i}", -(2 ** 31), 2 ** 31 - 1) if i < 2 else i for i in range(n)]
        try:
            enc = typ.encode(items)
        except TypeError:
            # b"".join cannot take symbolic buffers: encode element by element through the same field codec
            enc = None
        if enc is None:
            head = (T.UnsignedVarInt32.encode(len(items) + 1) if compact else T.Int32.encode(len(items)))
            enc = SymBuf(head, False)
            for it in items:
                enc = enc + T.Int32.encode(it)
            src.note("array body joined by the harness (bytes.join cannot take symbolic buffers)")
        enc = _items(enc)
        if compact:
            want_head = _ref_uvarint(0 if n is None else n + 1)
        else:
            want_head = list(((-1 if n is None else n) & 0xFFFFFFFF).to_bytes(4, "big"))
        if src.twin:
            want_head = want_head + [0]
        src.check(len(enc) == len(want_head) + 4 * (n or 0) and enc[:len(want_head)] == want_head,
                  "array length prefix differs from the protocol guide", compact=compact, n=n)
        rd = SymReader(SymBuf(enc + [src.byte("trail")]))
        got = typ.decode(rd)
        if n is None:
            src.check(got is None, "null array did not decode to None")
        else:
            src.check(got is not None and len(got) == n and s_and(*[a == b for a, b in zip(got, items)]),
                      "array decode(encode(a)) != a")
        src.check(rd.pos == len(enc), "array decode consumed the wrong number of bytes")


class _Fields:
    """dict look-alike with symbolic keys in insertion order"""

    def __init__(self, pairs):
        self.pairs = pairs

    def items(self):
        return list(self.pairs)

    def __len__(self):
        return len(self.pairs)

    def __bool__(self):
        return bool(self.pairs)


def k1_tagged(src):
    nf = src.choice("nfields", 3)
    pairs = []
    prev = -1
    for i in range(nf):
        # tags around the varint length boundaries (0, 127/128, 16383/16384); a symbolic tag is a dict
        # key on the decode side, which forces its value, so the domain is kept small
        base = [0, 124, 16380][src.choice(f"tagbase{i}", 3)]
        tag = base + src.int(f"tag{i}", 0, 7)
        src.assume(tag > prev, "tags strictly increasing")
        prev = tag
        val = [b"", b"a", b"ab"][src.choice(f"vlen{i}", 3)]
        pairs.append((tag, val))
    with _Env():
        try:
            enc = _items(T.TaggedFields.encode(_Fields(pairs)))
        except AssertionError:
            src.check(False, "TaggedFields.encode rejects a valid tag (tags are unsigned varints >= 0)")
            return
        # protocol guide: count, then (tag, size, bytes) triples
        rd = SymReader(SymBuf(enc + [src.byte("trail")]))
        try:
            got = T.TaggedFields.decode(rd)
        except (ValueError, IndexError, KeyError, TypeError, AssertionError, shims.error) as e:
            src.check(False, f"TaggedFields.decode(encode(x)) raised {type(e).__name__}")
            return
        ok = len(got) == nf + (1 if src.twin else 0)
        if ok:
            for (tag, val), (gt, gv) in zip(pairs, got.items()):
                ok = s_and(ok, gt == tag, SymBuf(gv) == val)
        src.check(ok, "TaggedFields.decode(encode(x)) != x (tag/size/value triples per the protocol guide)")
        src.check(rd.pos == len(enc), "TaggedFields.decode consumed the wrong number of bytes")
        # layout: the encoder must write a size varint for each field
        want_len = 1 + sum(len(_ref_uvarint(0 if isinstance(t, SymInt) else t)) for t, _ in pairs)
        total = len(_ref_uvarint(nf))
        for tag, val in pairs:
            total = total + 1 + len(val)  # size varint (1 byte for these sizes) + value
        # tag varint length depends on the (symbolic) tag
        tl = 0
        for tag, _ in pairs:
            tl = tl + (3 if (tag >= 16384) else (2 if (tag >= 128) else 1))
        src.check(len(enc) == total + tl, "TaggedFields wire length != count + sum(tag + size + value)")
        # byte-for-byte layout per the protocol guide (KIP-482): uvarint count, then for each field
        # uvarint tag, uvarint size (the plain byte count, not the compact-bytes N+1 form), the bytes
        pos = len(_ref_uvarint(nf))
        src.check(SymBuf(enc[:pos]) == bytes(_ref_uvarint(nf)), "TaggedFields: field count is not an unsigned varint")
        for i, (tag, val) in enumerate(pairs):
            if pos + 1 > len(enc):
                break
            if tag >= 16384:
                ok = s_and(enc[pos] == ((tag & 0x7F) | 0x80), enc[pos + 1] == (((tag >> 7) & 0x7F) | 0x80), enc[pos + 2] == (tag >> 14))
                pos += 3
            elif tag >= 128:
                ok = s_and(enc[pos] == ((tag & 0x7F) | 0x80), enc[pos + 1] == (tag >> 7))
                pos += 2
            else:
                ok = enc[pos] == tag
                pos += 1
            src.check(ok, f"TaggedFields: tag of field {i} is not written as an unsigned varint")
            want_size = len(val) + (1 if src.twin else 0)
            src.check(pos < len(enc) and enc[pos] == want_size,
                      f"TaggedFields: size of field {i} on the wire is not its byte count (unsigned varint N)", value_len=len(val))
            pos += 1
            src.check(SymBuf(enc[pos:pos + len(val)]) == val, f"TaggedFields: bytes of field {i} are not written verbatim")
            pos += len(val)


def k1_boolean(src):
    v = bool(src.choice("v", 2))
    with _Env():
        enc = _items(T.Boolean.encode(v))
        src.check(enc == [(1 if v else 0) ^ (1 if src.twin else 0)], "Boolean is not one byte 0/1")
        got = T.Boolean.decode(SymReader(SymBuf(enc)))
        src.check(got == v, "Boolean.decode(encode(v)) != v")


# ------------------------------------------------------------------------------------------
# K2 version negotiation for every Request subclass


def _all_request_classes():
    out = []
    for m in pkgutil.iter_modules(PROTO.__path__):
        mod = importlib.import_module(f"aiokafka.protocol.{m.name}")
        for name, obj in vars(mod).items():
            if inspect.isclass(obj) and issubclass(obj, Request) and obj is not Request and obj.__module__ == mod.__name__:
                out.append(obj)
    return sorted(out, key=lambda c: c.__name__)


REQUESTS = _all_request_classes()


def k2_negotiation(src, index):
    cls = REQUESTS[index]
    req = cls.__new__(cls)
    built = []

    def build(rc):
        built.append(rc)
        return rc

    req.build = build
    known = src.flag("api_key_advertised")
    classes = list(cls._CLASSES)
    client_versions = [c.API_VERSION for c in classes]
    if not known:
        try:
            got = req.prepare({})
        except IncompatibleBrokerVersion:
            src.check(not cls.ALLOW_UNKNOWN_API_VERSION or src.twin, "request refused although it allows an unknown API version")
            return
        src.check(cls.ALLOW_UNKNOWN_API_VERSION, "request built although the broker's version range is unknown")
        return
    lo = src.zint("min", 0, 32)
    hi = src.zint("max", 0, 32)
    src.assume(lo <= hi)
    try:
        got = req.prepare({cls.API_KEY: (lo, hi)})
    except (NotImplementedError, IncompatibleBrokerVersion):
        for v in client_versions:
            src.check(((lo <= v) & (v <= hi)) == False,  # noqa: E712
                      f"{cls.__name__}: no request built although client version {v} is inside the broker range")
        return
    v = got.API_VERSION
    src.check((lo <= v) & (v <= hi), f"{cls.__name__}: negotiated version outside the broker's advertised range")
    for w in client_versions:
        if w > v or src.twin:
            src.check(((lo <= w) & (w <= hi)) == False,  # noqa: E712
                      f"{cls.__name__}: a higher client version {w} inside the range was not chosen (got {v})")


def _all_subclasses(c):
    seen, todo = [], [c]
    while todo:
        x = todo.pop()
        for sc in x.__subclasses__():
            if sc not in seen:
                seen.append(sc)
                todo.append(sc)
    return seen


def _schema_sig(f):
    """structural signature of a schema tree (names are not on the wire, types and order are)"""
    if isinstance(f, T.Schema):
        return ("schema",) + tuple(_schema_sig(x) for x in f.fields)
    if isinstance(f, T.Array):
        return (type(f).__name__, _schema_sig(f.array_of))
    if isinstance(f, T.String):
        return (type(f).__name__, f.encoding)
    return getattr(f, "__name__", repr(f))


def k2b_pairing(src, index):
    """finite walk: every request struct is paired with the response of the same key/version, and the
    header form follows FLEXIBLE_VERSION"""
    from aiokafka.protocol.api import RequestHeader_v1, RequestHeader_v2, ResponseHeader_v0, ResponseHeader_v1
    cls = REQUESTS[index]
    vs = [c.API_VERSION for c in cls._CLASSES]
    # prepare() walks the classes from the end: they must be ordered by version for "highest" to hold
    src.check(vs == sorted(vs) and not src.twin, f"{cls.__name__}: struct classes not in ascending version order")
    responses = {}
    for r in _all_subclasses(Response):
        k = (getattr(r, "API_KEY", None), getattr(r, "API_VERSION", None))
        if isinstance(k[0], int) and isinstance(k[1], int):
            responses.setdefault(k, r)
    for rc in cls._CLASSES:
        src.check(rc.API_KEY == cls.API_KEY, f"{rc.__name__}: API key differs from its Request builder")
        rt = rc.RESPONSE_TYPE
        src.check(rt.API_KEY == rc.API_KEY, f"{rc.__name__}: RESPONSE_TYPE {rt.__name__} has a different API key")
        # the reply must be decoded with the schema of the version that was sent
        same = responses.get((rc.API_KEY, rc.API_VERSION))
        if same is not None:
            src.check(_schema_sig(rt.SCHEMA) == _schema_sig(same.SCHEMA),
                      f"{rc.__name__}: reply is parsed with {rt.__name__}, whose schema differs from the "
                      f"version {rc.API_VERSION} response schema ({same.__name__})")
        inst = rc.__new__(rc)
        hdr = inst.build_request_header(correlation_id=1, client_id="c")
        src.check(isinstance(hdr, RequestHeader_v2 if rc.FLEXIBLE_VERSION else RequestHeader_v1),
                  f"{rc.__name__}: request header form does not follow FLEXIBLE_VERSION")
        src.check((hdr.api_key, hdr.api_version) == (rc.API_KEY, rc.API_VERSION), f"{rc.__name__}: header key/version")
        raw = (7).to_bytes(4, "big") + (b"\x00" if rc.FLEXIBLE_VERSION else b"")
        rh = inst.parse_response_header(raw)
        src.check(isinstance(rh, ResponseHeader_v1 if rc.FLEXIBLE_VERSION else ResponseHeader_v0) and rh.correlation_id == 7,
                  f"{rc.__name__}: response header form does not follow FLEXIBLE_VERSION")


# ------------------------------------------------------------------------------------------
# K3: builders reject what the negotiated version cannot express


def _k3_cases():
    from aiokafka.protocol.admin import (CreateTopicsRequest, DeleteRecordsRequest, DescribeConfigsRequest,
                                         DescribeGroupsRequest)
    from aiokafka.protocol.commit import OffsetFetchRequest
    from aiokafka.protocol.coordination import FindCoordinatorRequest
    from aiokafka.protocol.fetch import FetchRequest
    from aiokafka.protocol.offset import OffsetRequest
    from aiokafka.protocol.produce import ProduceRequest
    # (name, factory(value), values, field carrying the value (or None), first version that can express it,
    #  predicate "the value changes the request's meaning")
    return [
        ("Produce.transactional_id", lambda v: ProduceRequest(v, 1, 100, [("t", [(0, b"")])]), [None, "tx"],
         "transactional_id", 3, lambda v: v is not None),
        ("Fetch.isolation_level", lambda v: FetchRequest(100, 1, 1000, v, [("t", [(0, 5, 100)])]), [0, 1],
         "isolation_level", 4, lambda v: v == 1),
        ("ListOffsets.isolation_level(latest)", lambda v: OffsetRequest(-1, v, [("t", [(0, -1)])]), [0, 1],
         "isolation_level", 2, lambda v: v == 1),
        ("ListOffsets.isolation_level(earliest)", lambda v: OffsetRequest(-1, v, [("t", [(0, -2)])]), [0, 1],
         "isolation_level", 2, lambda v: v == 1),
        ("ListOffsets.timestamp_search", lambda v: OffsetRequest(-1, 0, [("t", [(0, v)])]), [-1, -2, 12345, 0],
         None, 1, lambda v: v >= 0),
        ("FindCoordinator.coordinator_type", lambda v: FindCoordinatorRequest("k", v), [0, 1],
         "coordinator_type", 1, lambda v: v == 1),
        ("OffsetFetch.partitions", lambda v: OffsetFetchRequest("g", v), [[("t", [0])], None],
         "topics", 2, lambda v: v is None),
        ("DescribeGroups.include_authorized_operations", lambda v: DescribeGroupsRequest(["g"], v), [False, True],
         "include_authorized_operations", 3, lambda v: v is True),
        ("DescribeConfigs.include_synonyms", lambda v: DescribeConfigsRequest([(2, "t", None)], v), [False, True],
         "include_synonyms", 1, lambda v: v is True),
        ("DeleteRecords.tags", lambda v: DeleteRecordsRequest([("t", [(0, 5)])], 1000, v), [None, {1: b"x"}],
         "tags", 2, lambda v: v is not None),
    ]


def k3_builders(src, case_index):
    name, factory, values, field, first, meaningful = _k3_cases()[case_index]
    value = values[src.choice("value", len(values))]
    try:
        req = factory(value)
    except TypeError as e:
        src.check(False, f"{name}: harness could not construct the request ({e}): constructor signature changed")
        return
    versions = [c.API_VERSION for c in type(req)._CLASSES]
    v = versions[src.choice("version", len(versions))]
    try:
        built = req.prepare({type(req).API_KEY: (v, v)})
    except IncompatibleBrokerVersion:
        ok = meaningful(value) and v < first
        if src.twin:
            ok = not ok
        src.check(ok, f"{name}={value!r}: rejected at v{v} although that version can express it (or the value is the default)")
        return
    src.check(built.API_VERSION == v, f"{name}: built v{built.API_VERSION} for a broker that only speaks v{v}")
    if meaningful(value) and v < first:
        src.check(False, f"{name}={value!r} silently dropped: v{v} cannot express it but no IncompatibleBrokerVersion was raised",
                  version=v)
        return
    if v >= first and field in built.SCHEMA.names and field not in ("topics", "tags"):
        src.check(built.get_item(field) == value, f"{name}: v{v} struct does not carry the value in '{field}'",
                  got=built.get_item(field), want=value)
    # the struct encodes and decodes back
    try:
        raw = built.encode()
        back = type(built).decode(raw)
        src.check(back == built or name.startswith("Produce"), f"{name}: v{v} struct does not round-trip through its own schema")
    except Exception as e:  # noqa: BLE001
        src.check(False, f"{name}: v{v} struct failed to encode/decode: {type(e).__name__}: {e}")


# ------------------------------------------------------------------------------------------
# K4: whole messages.  Every struct class (request and response, every version) is decoded by the real
# Struct.decode/Schema.decode/Array.decode/... composition from bytes laid out by a reference encoder that walks
# the schema tree with the protocol guide's primitive layouts; the first integer leaves are symbolic over their
# full wire range, so "decode returns the original value" is a solver verdict for them.  The encode direction
# (bytes.join cannot take symbolic buffers) runs on the boundary instantiation of the same tree.


def _all_struct_classes():
    from aiokafka.protocol.struct import Struct
    out = []
    for c in _all_subclasses(Struct):
        if c.__module__.startswith("aiokafka.protocol") and isinstance(c.__dict__.get("SCHEMA", None), T.Schema) \
                and c.SCHEMA.fields and c.__init__ is Struct.__init__:
            # (request headers have their own constructor and are never decoded by a client: K2b covers them)
            out.append(c)
    return sorted(out, key=lambda c: (c.__module__, c.__name__))


STRUCTS = _all_struct_classes()
_K4_GROUPS = sorted({c.__module__.rsplit(".", 1)[1] for c in STRUCTS})
_K4_SYM = 6  # symbolic integer leaves per message
_INT_RANGE = {T.Int8: (8, True), T.Int16: (16, True), T.Int32: (32, True), T.UInt32: (32, False), T.Int64: (64, True)}


def _be(v, bits):
    return [(v >> s) & 0xFF for s in range(bits - 8, -1, -8)]


class _Gen:
    """value tree + reference wire bytes for one schema, one shape"""

    def __init__(self, src, shape, symbolic):
        self.src, self.shape, self.left, self.n = src, shape, int(symbolic), 0

    def integer(self, typ):
        bits, signed = _INT_RANGE[typ]
        lo, hi = (-(1 << (bits - 1)), (1 << (bits - 1)) - 1) if signed else (0, (1 << bits) - 1)
        self.n += 1
        if self.left > 0:
            self.left -= 1
            # the wire bytes are the variables; the field value is their big-endian two's complement reading
            bs = self.src.bytes(f"i{self.n}_", bits // 8)
            acc = 0
            for b in bs:
                acc = (acc << 8) + b
            if signed:
                acc = acc - (((acc >> (bits - 1)) & 1) << bits)
            return acc, list(bs)
        else:
            v = (lo, hi, -1 if signed else 1, 0)[(self.n + self.shape) % 4]
        return v, _be(v & ((1 << bits) - 1), bits)

    def value(self, f):
        sh = self.shape
        if f in _INT_RANGE:
            return self.integer(f)
        if f is T.Boolean:
            v = bool((self.n + sh) % 2)
            self.n += 1
            return v, [1 if v else 0]
        if f is T.Float64:
            import struct as _st
            v = (0.0, 1.5, -2.25)[sh]
            return v, list(_st.pack(">d", v))
        if f is T.UnsignedVarInt32:
            v = (0, 127, 128, 0xFFFFFFFF)[(self.n + sh) % 4]
            self.n += 1
            return v, _ref_uvarint(v)
        if isinstance(f, T.CompactString):
            s = (None, "a", "té€")[sh]
            raw = None if s is None else s.encode(f.encoding)
            return s, _ref_uvarint(0 if raw is None else len(raw) + 1) + list(raw or b"")
        if isinstance(f, T.String):
            s = (None, "a", "té€")[sh]
            raw = None if s is None else s.encode(f.encoding)
            return s, _be((-1 if raw is None else len(raw)) & 0xFFFF, 16) + list(raw or b"")
        if f is T.CompactBytes:
            b = (None, b"", b"\x00\xff\x80")[sh]
            return b, _ref_uvarint(0 if b is None else len(b) + 1) + list(b or b"")
        if f is T.Bytes:
            b = (None, b"", b"\x00\xff\x80")[sh]
            return b, _be((-1 if b is None else len(b)) & 0xFFFFFFFF, 32) + list(b or b"")
        if f is T.TaggedFields:
            d = ({}, {}, {0: b"", 130: b"\x01\x02"})[sh]
            out = _ref_uvarint(len(d))
            for k, v in d.items():
                out += _ref_uvarint(k) + _ref_uvarint(len(v)) + list(v)
            return d, out
        if isinstance(f, T.Array):  # CompactArray is a subclass
            compact = isinstance(f, T.CompactArray)
            n = (None, 1, 2)[sh] if self.n % 2 else (0, 1, 2)[sh]
            self.n += 1
            head = _ref_uvarint(0 if n is None else n + 1) if compact else _be((-1 if n is None else n) & 0xFFFFFFFF, 32)
            if n is None:
                return None, head
            vals, out = [], head
            for _ in range(n):
                v, b = self.value(f.array_of)
                vals.append(v)
                out = out + b
            return vals, out
        if isinstance(f, T.Schema):
            vals, out = [], []
            for sub in f.fields:
                v, b = self.value(sub)
                vals.append(v)
                out = out + b
            return tuple(vals), out
        raise NotImplementedError(f"field type {f!r}")


def _same(src, got, want):
    """symbolic-aware deep equality of a decoded tree and the generated one"""
    if isinstance(want, (list, tuple)):
        if got is None or len(got) != len(want):
            return False
        return s_and(*[_same(src, g, w) for g, w in zip(got, want)]) if want else True
    if isinstance(want, dict):
        return isinstance(got, dict) and list(got) == list(want) and all(SymBuf(got[k]) == SymBuf(want[k]) for k in want)
    if isinstance(want, (bytes, bytearray)):
        return got is not None and (SymBuf(got) == SymBuf(want))
    if want is None:
        return got is None
    if isinstance(want, bool):
        return (got == want) if isinstance(got, (bool, SymInt, core_SymBool)) else False
    return got == want


from symx.core import SymBool as core_SymBool  # noqa: E402


def k4_messages(src, group, nsym=_K4_SYM):
    classes = [c for c in STRUCTS if c.__module__.rsplit(".", 1)[1] == group]
    cls = classes[src.choice("class", len(classes))]
    shape = src.choice("shape", 3)
    name = f"{cls.__name__}"
    real_f64 = T.Float64._unpack
    with _Env(), patched(T.Float64, _unpack=lambda b: real_f64(b.to_bytes() if isinstance(b, SymBuf) else b)):
        # decode direction, symbolic leaves
        g = _Gen(src, shape, nsym)
        try:
            want, wire = g.value(cls.SCHEMA)
        except NotImplementedError as e:
            src.check(False, f"{name}: harness cannot lay out the schema: {e}")
            return
        if src.twin and wire:
            wire = wire[:-1] + [wire[-1] ^ 1]
        rd = SymReader(SymBuf(wire + [src.byte("trail")]))
        try:
            obj = cls.decode(rd)
        except (ValueError, TypeError, IndexError, KeyError, AssertionError, shims.error) as e:
            src.check(False, f"{name}: decode of a well-formed message raised {type(e).__name__}: {e}", shape=shape)
            return
        got = tuple(obj.__dict__[n] for n in cls.SCHEMA.names)
        src.check(_same(src, got, want), f"{name}: decoding the protocol-guide layout of a message does not return its fields",
                  shape=shape)
        src.check(rd.pos == len(wire), f"{name}: decode consumed {rd.pos} bytes of a {len(wire)}-byte message", shape=shape)
    # encode direction on the boundary instantiation (concrete)
    g = _Gen(src, shape, 0)
    want, wire = g.value(cls.SCHEMA)
    try:
        enc = cls(*want).encode()
    except (ValueError, TypeError, IndexError, KeyError, AssertionError, shims.error) as e:
        src.check(False, f"{name}: encode of in-range field values raised {type(e).__name__}: {e}", shape=shape)
        return
    src.check(list(enc) == wire, f"{name}: encoding differs from the protocol-guide layout of its schema", shape=shape)
    back = cls.decode(bytes(enc))
    src.check(_same(src, tuple(back.__dict__[n] for n in cls.SCHEMA.names), want),
              f"{name}: decode(encode(m)) != m", shape=shape)


def harnesses(tier):
    hs = []
    _K4_SYM = 6 if tier == "quick" else 24
    for group in _K4_GROUPS:
        n = len([c for c in STRUCTS if c.__module__.rsplit(".", 1)[1] == group])
        hs.append(Harness(name=f"K4_messages_{group}", fn=k4_messages, params={"group": group, "nsym": _K4_SYM},
                          functions=[T.Schema.encode, T.Schema.decode, T.Array.encode, T.Array.decode, T.CompactArray.encode,
                                     T.CompactArray.decode, T.String.decode, T.CompactString.decode, T.Bytes.decode,
                                     T.CompactBytes.decode, T.TaggedFields.decode],
                          shape="K", twin_max_paths=3 * n + 5,
                          symbolic_vars=f"the first {_K4_SYM} integer fields of the message over their full wire range (Int8..Int64, "
                                        "UInt32); one trailing byte; struct class and one of 3 shapes (null/empty, 1-element, "
                                        "2-element arrays; null / ASCII / multi-byte strings; null / empty / 3-byte blobs; 0 or 2 "
                                        "tagged fields) are choices; remaining integers at type boundaries",
                          bounds={"struct_classes": n, "shapes": 3, "symbolic_int_fields": _K4_SYM},
                          stubs=["struct.Struct(fmt).pack/unpack by definition (format string taken from the code)",
                                 "io.BytesIO -> SymReader"],
                          note="reference layout walks the class's own SCHEMA tree: composition (Struct/Schema/Array/"
                               "CompactArray/String/Bytes/TaggedFields) is decided, conformance of the schema tables to "
                               "Kafka's message definitions is not"))
    for i, case in enumerate(_k3_cases()):
        hs.append(Harness(name=f"K3_builder_{case[0].replace('.', '_').replace('(', '_').replace(')', '')}", fn=k3_builders,
                          params={"case_index": i}, functions=[Request.prepare], shape="K",
                          symbolic_vars="finite-domain choices: parameter value (default / meaning-changing), every client version of the request",
                          bounds={"values": [repr(v) for v in case[2]]},
                          note="finite walk over versions x values against a hand-written map of which version can express which parameter",
                          twin_max_paths=40))
    for kind in _FIXED:
        hs.append(Harness(name=f"K1_fixed_{kind}", fn=k1_fixed, params={"kind": kind},
                          functions=[_FIXED[kind][0].encode, _FIXED[kind][0].decode], shape="K",
                          symbolic_vars="v over the full wire range plus 2 values either side; one trailing byte",
                          bounds={"value": "full range of the wire type"},
                          stubs=["struct.Struct(fmt).pack/unpack by definition (format string taken from the code)", "io.BytesIO -> SymReader"]))
    hs.append(Harness(name="K1_uvarint32", fn=k1_uvarint, functions=[T.UnsignedVarInt32.encode, T.UnsignedVarInt32.decode],
                      shape="K", symbolic_vars="v: all uint32", bounds={"value": "all 2^32"},
                      stubs=["struct.pack/unpack('B')", "io.BytesIO -> SymReader"]))
    hs.append(Harness(name="K1_varint32", fn=k1_varint32, functions=[T.VarInt32.encode, T.VarInt32.decode],
                      shape="K", symbolic_vars="v: all int32", bounds={"value": "all 2^32"},
                      stubs=["struct.pack/unpack('B')", "io.BytesIO -> SymReader"]))
    for compact in (False, True):
        c = "compact_" if compact else ""
        hs.append(Harness(name=f"K1_{c}string", fn=k1_string, params={"compact": compact},
                          functions=[(T.CompactString if compact else T.String).encode, (T.CompactString if compact else T.String).decode],
                          shape="K", symbolic_vars="string from a boundary menu (choice): null, empty, non-ASCII, 126/127/128/300 bytes",
                          bounds={"strings": len(_STRINGS)}))
        hs.append(Harness(name=f"K1_{c}bytes", fn=k1_bytes, params={"compact": compact},
                          functions=[(T.CompactBytes if compact else T.Bytes).encode, (T.CompactBytes if compact else T.Bytes).decode],
                          shape="K", symbolic_vars="length from a boundary menu (choice); first 3 content bytes symbolic",
                          bounds={"lengths": _BLENS}))
        hs.append(Harness(name=f"K1_{c}array", fn=k1_array, params={"compact": compact},
                          functions=[(T.CompactArray if compact else T.Array).encode, (T.CompactArray if compact else T.Array).decode],
                          shape="K", symbolic_vars="length in {null,0,1,2,127} (choice); first 2 items symbolic int32",
                          bounds={"lengths": [None, 0, 1, 2, 127]}))
    hs.append(Harness(name="K1_tagged_fields", fn=k1_tagged, functions=[T.TaggedFields.encode, T.TaggedFields.decode],
                      shape="K", symbolic_vars="0..2 fields; tags symbolic around the varint length boundaries, strictly increasing; value length 0..2 (choice)",
                      bounds={"fields": "0..2", "tag": "0..7, 124..131, 16380..16387", "value_len": "0..2"},
                      assumptions=["tags strictly increasing (protocol guide)"],
                      stubs=["isinstance shadowed in protocol.types so proxies count as int/bytes"], max_paths=20000))
    hs.append(Harness(name="K1_boolean", fn=k1_boolean, functions=[T.Boolean.encode, T.Boolean.decode], shape="K",
                      bounds={"values": 2}))
    for i, cls in enumerate(REQUESTS):
        hs.append(Harness(name=f"K2_negotiate_{cls.__name__}", fn=k2_negotiation, params={"index": i},
                          functions=[Request.prepare], shape="K",
                          symbolic_vars="broker (min,max) as z3 Int with 0<=min<=max<=32; api key advertised or not (choice)",
                          bounds={"min,max": "all pairs 0..32", "client_versions": [c.API_VERSION for c in cls._CLASSES]},
                          stubs=["build() replaced by a recorder (the per-version builders are K3's subject)"]))
        hs.append(Harness(name=f"K2b_pairing_{cls.__name__}", fn=k2b_pairing, params={"index": i},
                          functions=[RequestStruct.build_request_header, RequestStruct.parse_response_header], shape="K",
                          symbolic_vars="none: finite walk over the struct classes", bounds={"classes": len(cls._CLASSES)}))
    return hs
