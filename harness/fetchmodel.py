"""Symbolic partition-log responses, a reference reader (DESIGN Appendix B2) and a driver that pushes
them through the real PartitionRecords / FetchResult / TopicPartitionState.  Shared by C03, C04, C08."""
import asyncio

from symx import s_and, s_not, s_or
from symx.core import SymBool, is_sym

from aiokafka.errors import CorruptRecordException
from aiokafka.consumer.fetcher import READ_COMMITTED, READ_UNCOMMITTED, FetchResult, PartitionRecords
from aiokafka.consumer.subscription_state import SubscriptionState
from aiokafka.structs import TopicPartition

from .common import in_loop

TP = TopicPartition("t", 0)
ABORT_KEY = b"\x00\x00\x00\x00"
COMMIT_KEY = b"\x00\x00\x00\x01"


class StubRecord:
    def __init__(self, offset, key=b"k", value=b"v"):
        self.offset = offset
        self.key = key
        self.value = value
        self.timestamp = 1
        self.timestamp_type = 0
        self.checksum = None
        self.headers = []


class StubBatch:
    """the interface PartitionRecords uses of a record batch"""

    def __init__(self, base_offset, records, next_offset, producer_id=-1, transactional=False, control=False):
        self.base_offset = base_offset
        self._records = records
        self.next_offset = next_offset
        self.producer_id = producer_id
        self.is_transactional = transactional
        self.is_control_batch = control
        self._it = None

    def validate_crc(self):
        return True

    def __iter__(self):
        self._it = iter(self._records)
        return self

    def __next__(self):
        if self._it is None:
            self._it = iter(self._records)
        return next(self._it)


class StubRecords:
    def __init__(self, batches):
        self._batches = list(batches)
        self._i = 0

    def has_next(self):
        return self._i < len(self._batches)

    def next_batch(self):
        if self._i >= len(self._batches):
            return None
        b = self._batches[self._i]
        self._i += 1
        return b

    def size_in_bytes(self):
        return 100


def build_log(src, nbatches, nproducers, max_records=2, transactional=True, extra_index=False):
    """Returns dict(batches, desc, fetch_offset, index, outcomes).
    Well-formedness assumed (each an assume placed before the code runs; DESIGN C08-U1 (a)-(d))."""
    kinds = ["plain"]
    if transactional:
        for p in range(nproducers):
            kinds += [f"txn{p}", f"abort{p}", f"commit{p}"]
    desc = []
    batches = []
    prev_next = src.zint("base0", 0)
    for i in range(nbatches):
        kind = kinds[src.choice(f"kind{i}", len(kinds))]
        if i == 0:
            base = prev_next
        else:
            gap = src.zint(f"bgap{i}", 0)  # compaction may remove whole batches
            base = prev_next + gap
        if kind.startswith(("abort", "commit")):
            pid = 100 + int(kind[-1])
            rec = StubRecord(base, key=ABORT_KEY if kind.startswith("abort") else COMMIT_KEY, value=b"")
            b = StubBatch(base, [rec], base + 1, pid, True, True)
            offs, last = [base], base
        else:
            nrec = src.choice(f"nrec{i}", max_records + 1)  # 0 = batch emptied by compaction
            offs = []
            cur = base
            for r in range(nrec):
                g = src.zint(f"rgap{i}_{r}", 0)  # compaction gaps inside the batch
                o = cur + g
                offs.append(o)
                cur = o + 1
            tail = src.zint(f"tail{i}", 0)  # last offset delta preserved past compacted records
            last = (cur - 1 + tail) if nrec else (base + tail)
            pid = (100 + int(kind[-1])) if kind.startswith("txn") else -1
            b = StubBatch(base, [StubRecord(o, key=b"k%d" % i, value=b"v%d" % r) for r, o in enumerate(offs)],
                          last + 1, pid, kind.startswith("txn"), False)
        batches.append(b)
        desc.append({"kind": kind, "base": base, "offsets": offs, "last": last, "pid": pid})
        prev_next = last + 1
    # fetch offset inside the first batch
    f = src.zint("fetch_offset", 0)
    src.assume((f >= desc[0]["base"]) & (f <= desc[0]["last"]), "fetch offset lies inside the first returned batch")
    # transactions per producer and their outcomes
    index = []
    outcome = [None] * nbatches  # for txn data batches: True = aborted
    if transactional:
        for p in range(nproducers):
            pid = 100 + p
            open_batches = []
            prev_marker = None
            tno = 0
            for i, d in enumerate(desc):
                if d["pid"] != pid:
                    continue
                if d["kind"].startswith("txn"):
                    open_batches.append(i)
                    continue
                aborted = d["kind"].startswith("abort")
                for j in open_batches:
                    outcome[j] = aborted
                if aborted:
                    first = src.zint(f"first_p{p}_{tno}", 0)
                    anchor = desc[open_batches[0]]["base"] if open_batches else d["base"]
                    src.assume(first <= anchor, "index first_offset <= first in-response batch of the transaction")
                    if prev_marker is not None:
                        src.assume(first > desc[prev_marker]["base"],
                                   "transactions of one producer are sequential (first_offset > previous marker)")
                    present = True
                    if not open_batches:
                        # solitary abort marker (data compacted away or before the fetch range): the broker
                        # may or may not still list the transaction
                        present = src.flag(f"solitary_listed_p{p}_{tno}")
                    if present:
                        index.append((pid, first))
                open_batches = []
                prev_marker = i
                tno += 1
            if open_batches:
                # response cut below the LSO: outcome already decided
                aborted = src.flag(f"tail_aborted_p{p}")
                for j in open_batches:
                    outcome[j] = aborted
                if aborted:
                    first = src.zint(f"first_p{p}_tail", 0)
                    src.assume(first <= desc[open_batches[0]]["base"], "index first_offset <= first batch of the transaction")
                    if prev_marker is not None:
                        src.assume(first > desc[prev_marker]["base"], "transactions of one producer are sequential")
                    index.append((pid, first))
            elif extra_index and src.flag(f"later_txn_p{p}"):
                # the broker collects the index up to an upper bound beyond the response
                first = src.zint(f"first_p{p}_later", 0)
                src.assume(first > desc[-1]["last"], "entry for a transaction that begins after the last returned batch")
                index.append((pid, first))
    return {"batches": batches, "desc": desc, "fetch_offset": f, "index": index, "outcome": outcome}


def reference_delivery(log, isolation):
    """Reference reader: offsets (in order) of the records a consumer at fetch_offset must deliver."""
    out = []  # list of (offset, guard) : guard is the (possibly symbolic) condition offset >= fetch_offset
    f = log["fetch_offset"]
    for i, d in enumerate(log["desc"]):
        if not d["kind"].startswith(("plain", "txn")):
            continue
        if isolation == READ_COMMITTED and d["kind"].startswith("txn") and log["outcome"][i]:
            continue
        for o in d["offsets"]:
            out.append(o)
    return out


def run_fetch(src, log, isolation, style, max_records=None, corrupt_batch=None):
    """Drive the real PartitionRecords through the real FetchResult against a real assignment.
    Returns (delivered offsets, positions observed after each hand-out, final state).
    corrupt_batch: index of a batch whose checksum does not verify (check_crcs on): the call that reaches
    it raises to the application, which received nothing from that call."""
    res = {"raised": 0}
    if corrupt_batch is not None:
        log["batches"][corrupt_batch].validate_crc = lambda: False

    def run():
        sub = SubscriptionState()
        sub.assign_from_user([TP])
        assignment = sub.subscription.assignment
        st = assignment.state_value(TP)
        st.seek(log["fetch_offset"])
        pr = PartitionRecords(TP, StubRecords(log["batches"]), list(log["index"]), log["fetch_offset"],
                              None, None, corrupt_batch is not None, isolation)
        fr = FetchResult(TP, assignment=assignment, partition_records=pr, backoff=0)
        delivered, positions = [], []
        guard = 0
        while fr.has_more():
            guard += 1
            if guard > 50:
                res["stuck"] = True
                break
            try:
                if style == "getone":
                    m = fr.getone()
                    got = [m] if m is not None else []
                else:
                    got = fr.getall(max_records)
            except CorruptRecordException:
                res["raised"] += 1
                got = []  # the call raised: whatever it had collected never reached the application
            delivered.extend(r.offset for r in got)
            positions.append((len(delivered), st.position))
        res.update(delivered=delivered, positions=positions, final_position=st.position,
                   consumed=assignment.all_consumed_offsets(), next_fetch=pr.next_fetch_offset)

    in_loop(run)
    return res


def check_delivery(src, log, isolation, res, prefix=""):
    """the property's statement over one response"""
    f = log["fetch_offset"]
    ref = [o for o in reference_delivery(log, isolation)]
    # visible records at or after the fetch offset, in order
    want = []
    for o in ref:
        if o >= f:  # forks on symbolic offsets: which records of the first batch precede the position
            want.append(o)
    got = res["delivered"]
    src.check(not res.get("stuck"), prefix + "consumer stalls: the same response is never exhausted")
    if src.twin and want:
        want = want[1:]
    src.check(len(got) == len(want),
              prefix + "delivered records differ from the reference reader (count)",
              delivered=len(got), expected=len(want), isolation=isolation)
    if len(got) == len(want):
        src.check(s_and(*[a == b for a, b in zip(got, want)]),
                  prefix + "delivered records differ from the reference reader (offsets/order)")
    # positions
    end = log["desc"][-1]["last"] + 1
    for k, pos in res["positions"]:
        if k > 0:
            src.check(pos >= got[k - 1] + 1, prefix + "position() behind one past the last returned record")
        if k < len(want) and len(got) == len(want):
            src.check(pos <= want[k], prefix + "position() ahead of a visible record that has not been returned")
    src.check(res["final_position"] == end,
              prefix + "position does not advance past filtered/invisible data at the end of the response (re-fetch forever)")
    c = res["consumed"].get(TP)
    src.check(c is not None and c.offset == res["final_position"],
              prefix + "all_consumed_offsets() differs from the position")


def check_committable(src, log, isolation, res, prefix=""):
    """only the commit clause: what would be committed (position == all_consumed_offsets) never passes a
    visible record that the application has not received -- also when a call raised half-way"""
    f = log["fetch_offset"]
    want = [o for o in reference_delivery(log, isolation) if o >= f]
    got = res["delivered"]
    src.check(not res.get("stuck"), prefix + "consumer stalls: the same response is never exhausted")
    steps = list(res["positions"]) + [(len(got), res["final_position"])]
    c = res["consumed"].get(TP)
    if c is not None:
        steps.append((len(got), c.offset))
    for k, pos in steps:
        have = got[:k]
        for o in want:
            missing = not any(bool(o == h) for h in have)
            if missing:
                ok = pos <= o
                if src.twin:
                    ok = pos > o
                src.check(ok, prefix + "the committable position passes a visible record that was never handed to the application "
                          "(a call raised half-way through the response)", raised=res.get("raised"))
                break
