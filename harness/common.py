"""Shared helpers for harnesses."""
import asyncio
import contextlib
import logging
import signal

logging.disable(logging.CRITICAL)


def in_loop(fn, *a, **k):
    """Run fn inside a fresh (real) event loop: constructors in aiokafka call create_future()."""
    async def _w():
        r = fn(*a, **k)
        if asyncio.iscoroutine(r):
            r = await r
        return r
    loop = asyncio.new_event_loop()
    try:
        return loop.run_until_complete(_w())
    finally:
        loop.close()


@contextlib.contextmanager
def patched(obj, **attrs):
    saved = {k: getattr(obj, k, _MISSING) for k in attrs}
    for k, v in attrs.items():
        setattr(obj, k, v)
    try:
        yield
    finally:
        for k, v in saved.items():
            if v is _MISSING:
                delattr(obj, k)
            else:
                setattr(obj, k, v)


_MISSING = object()


def missing_attr(src, obj, name):
    """A harness that plants state into a private attribute exits inconclusive (not violated) when the
    attribute is gone (behaviour-preserving refactoring)."""
    if not hasattr(obj, name):
        from symx.core import unsupported
        unsupported(f"harness plants state into {type(obj).__name__}.{name}, which no longer exists")


class Runaway(BaseException):
    """raised inside the code under test when it has used up its CPU-time budget (BaseException: library
    code with a broad `except Exception` cannot swallow it)"""


@contextlib.contextmanager
def watchdog(cpu_seconds=2.0):
    """Budget of process CPU time (ITIMER_VIRTUAL: independent of machine load) for a piece of code that
    must terminate on every input; harness workers and replays run in the main thread of their process."""
    def on_alarm(sig, frame):
        raise Runaway()
    try:
        old = signal.signal(signal.SIGVTALRM, on_alarm)
    except ValueError:  # not the main thread: no guard available
        yield
        return
    signal.setitimer(signal.ITIMER_VIRTUAL, cpu_seconds)
    try:
        yield
    finally:
        signal.setitimer(signal.ITIMER_VIRTUAL, 0)
        signal.signal(signal.SIGVTALRM, old)
