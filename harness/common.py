"""Shared helpers for harnesses."""
import asyncio
import contextlib
import logging

logging.disable(logging.CRITICAL)


def in_loop(fn, *a, **k):
    """Run fn inside a fresh (real) event loop: constructors in aiokafka call create_future()."""
    async def _w():
        r = fn(*a, **k)
        if asyncio.iscoroutine(r):
            r = await r
        return r
    loop = asyncio.new_event_loop()
    try:
        return loop.run_until_complete(_w())
    finally:
        loop.close()


@contextlib.contextmanager
def patched(obj, **attrs):
    saved = {k: getattr(obj, k, _MISSING) for k in attrs}
    for k, v in attrs.items():
        setattr(obj, k, v)
    try:
        yield
    finally:
        for k, v in saved.items():
            if v is _MISSING:
                delattr(obj, k)
            else:
                setattr(obj, k, v)


_MISSING = object()


def missing_attr(src, obj, name):
    """A harness that plants state into a private attribute exits inconclusive (not violated) when the
    attribute is gone (behaviour-preserving refactoring)."""
    if not hasattr(obj, name):
        from symx.core import unsupported
        unsupported(f"harness plants state into {type(obj).__name__}.{name}, which no longer exists")
