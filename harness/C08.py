"""C08 — isolation filter: no aborted, no unstable, no control records delivered."""
from symx import Harness

from aiokafka.consumer.fetcher import READ_COMMITTED, READ_UNCOMMITTED, FetchResult, PartitionRecords

from . import fetchmodel as FM

STYLES = ["getall", "getone", "getall1"]


def u1_filter(src, nbatches, nproducers, extra_index):
    isolation = [READ_COMMITTED, READ_UNCOMMITTED][src.choice("isolation", 2)]
    style = STYLES[src.choice("style", len(STYLES))]
    log = FM.build_log(src, nbatches, nproducers, max_records=2, transactional=True, extra_index=extra_index)
    src.note({"kinds": [d["kind"] for d in log["desc"]], "isolation": isolation, "style": style,
              "index_entries": len(log["index"])})
    res = FM.run_fetch(src, log, isolation, "getone" if style == "getone" else "getall",
                       1 if style == "getall1" else None)
    FM.check_delivery(src, log, isolation, res)
    # markers never delivered (at either level): every delivered offset belongs to a data batch
    # (implied by equality with the reference reader, which never lists a control batch)


def harnesses(tier):
    q = tier == "quick"
    confs = [(1, 1, False), (2, 2, False), (3, 2, False)] if q else [(2, 2, True), (3, 3, False), (4, 2, False), (3, 2, True)]
    hs = []
    for nb, npr, extra in confs:
        hs.append(Harness(
            name=f"U1_filter_{nb}batches_{npr}producers{'_laterindex' if extra else ''}", fn=u1_filter,
            params={"nbatches": nb, "nproducers": npr, "extra_index": extra},
            functions=[PartitionRecords._unpack_records, PartitionRecords._consume_aborted_up_to,
                       PartitionRecords._contains_abort_marker, PartitionRecords.__init__,
                       FetchResult.getone, FetchResult.getall, FetchResult.check_assignment, FetchResult._update_position],
            shape="U",
            symbolic_vars="all offsets (batch bases, compaction gaps, last-offset tails, fetch offset, aborted-index first offsets) as unbounded z3 Ints; batch kinds, producers, record counts, outcomes of open transactions, isolation level, retrieval style as choices",
            bounds={"batches": nb, "producers": npr, "records_per_batch": "0..2", "offsets": "unbounded"},
            assumptions=["(a) batch ranges increase; record offsets inside a batch increase; next_offset >= last record + 1",
                         "(b) the fetch offset lies inside the first returned batch",
                         "(c) a transactional batch without a later marker in the response has a decided outcome (response cut below the LSO) and is in the index iff aborted",
                         "(d) an index entry's first offset is <= the first in-response batch of its transaction and > the previous marker of the same producer (transactions of one producer are sequential)"],
            stubs=["record batches replaced by stub objects with the attributes PartitionRecords reads (base_offset, next_offset, producer_id, flags, records)"],
            max_seconds=400 if q else 3000, max_paths=3000000, twin_max_paths=3000))
    return hs
