"""C08 — isolation filter: no aborted, no unstable, no control records delivered."""
from symx import Harness

from aiokafka.consumer.fetcher import READ_COMMITTED, READ_UNCOMMITTED, FetchResult, PartitionRecords

from . import fetchmodel as FM

STYLES = ["getall", "getone", "getall1"]


def u1_filter(src, nbatches, nproducers, extra_index):
    isolation = [READ_COMMITTED, READ_UNCOMMITTED][src.choice("isolation", 2)]
    style = STYLES[src.choice("style", len(STYLES))]
    log = FM.build_log(src, nbatches, nproducers, max_records=2, transactional=True, extra_index=extra_index)
    src.note({"kinds": [d["kind"] for d in log["desc"]], "isolation": isolation, "style": style,
              "index_entries": len(log["index"])})
    res = FM.run_fetch(src, log, isolation, "getone" if style == "getone" else "getall",
                       1 if style == "getall1" else None)
    FM.check_delivery(src, log, isolation, res)
    # markers never delivered (at either level): every delivered offset belongs to a data batch
    # (implied by equality with the reference reader, which never lists a control batch)


# ------------------------------------------------------------------------------------------
# S1: the whole path from the wire -- Fetch responses of every protocol version that carries the
# transactional fields -- through the real consumer


FETCH_VERSION_CAPS = [4, 5, 7, 10, 11]


def s1_fetch_versions(src, shape):
    from . import conssim
    cap = FETCH_VERSION_CAPS[src.choice("highest_fetch_version_of_the_broker", len(FETCH_VERSION_CAPS))]
    iso = src.choice("isolation", 2)
    cfg = {"isolation": iso, "policy": "earliest", "versions": {1: (0, cap)}, "seek_targets": [0, 1], "start": [None, 2][src.choice("start", 2)]}
    res = conssim.run_consumer(src, shape, cfg, 2, max_faults=0)
    used = sorted({a["req"].get("version") for a in res["cluster"].arrivals if a["req"]["api"] == "Fetch"})
    src.note({"shape": shape, "fetch_versions_used": used, "trace": res.get("trace")})
    src.check("deadlock" not in res, "consumer run did not finish in bounded virtual time: " + str(res.get("deadlock")))
    src.check(used == [cap] or src.twin, f"the consumer did not use Fetch v{cap} against a broker whose highest version is {cap}", used=used)


def harnesses(tier):
    q = tier == "quick"
    confs = [(1, 1, False), (2, 2, False), (3, 2, False)] if q else [(2, 2, True), (3, 3, False), (4, 2, False), (3, 2, True)]
    hs = []
    for shape in (["txn_mixed"] if q else ["txn_mixed", "txn_open", "txn_same_pid", "v2_control"]):
        hs.append(Harness(
            name=f"S1_fetch_versions_{shape}", fn=s1_fetch_versions, params={"shape": shape},
            functions=[PartitionRecords.__init__, PartitionRecords._unpack_records], shape="S",
            symbolic_vars="choices: highest Fetch version the broker offers (4, 5, 7, 10, 11), isolation level, start position, two consumer calls, one batch or all per response",
            bounds={"fetch_versions": FETCH_VERSION_CAPS, "calls": 2},
            stubs=["SimConn broker model (Fetch v0-v11 per the protocol guide)", "virtual-time loop", "log built by the reference codec"],
            max_seconds=300, max_paths=500000, twin_max_paths=300))
    for nb, npr, extra in confs:
        hs.append(Harness(
            name=f"U1_filter_{nb}batches_{npr}producers{'_laterindex' if extra else ''}", fn=u1_filter,
            params={"nbatches": nb, "nproducers": npr, "extra_index": extra},
            functions=[PartitionRecords._unpack_records, PartitionRecords._consume_aborted_up_to,
                       PartitionRecords._contains_abort_marker, PartitionRecords.__init__,
                       FetchResult.getone, FetchResult.getall, FetchResult.check_assignment, FetchResult._update_position],
            shape="U",
            symbolic_vars="all offsets (batch bases, compaction gaps, last-offset tails, fetch offset, aborted-index first offsets) as unbounded z3 Ints; batch kinds, producers, record counts, outcomes of open transactions, isolation level, retrieval style as choices",
            bounds={"batches": nb, "producers": npr, "records_per_batch": "0..2", "offsets": "unbounded"},
            assumptions=["(a) batch ranges increase; record offsets inside a batch increase; next_offset >= last record + 1",
                         "(b) the fetch offset lies inside the first returned batch",
                         "(c) a transactional batch without a later marker in the response has a decided outcome (response cut below the LSO) and is in the index iff aborted",
                         "(d) an index entry's first offset is <= the first in-response batch of its transaction and > the previous marker of the same producer (transactions of one producer are sequential)"],
            stubs=["record batches replaced by stub objects with the attributes PartitionRecords reads (base_offset, next_offset, producer_id, flags, records)"],
            max_seconds=400 if q else 3000, max_paths=3000000, twin_max_paths=3000))
    return hs
