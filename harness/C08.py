"""C08 — isolation filter: no aborted, no unstable, no control records delivered."""
from symx import Harness

from aiokafka.consumer.fetcher import READ_COMMITTED, READ_UNCOMMITTED, FetchResult, PartitionRecords

from . import fetchmodel as FM

STYLES = ["getall", "getone", "getall1"]


def u1_filter(src, nbatches, nproducers, extra_index):
    isolation = [READ_COMMITTED, READ_UNCOMMITTED][src.choice("isolation", 2)]
    style = STYLES[src.choice("style", len(STYLES))]
    log = FM.build_log(src, nbatches, nproducers, max_records=2, transactional=True, extra_index=extra_index)
    src.note({"kinds": [d["kind"] for d in log["desc"]], "isolation": isolation, "style": style,
              "index_entries": len(log["index"])})
    res = FM.run_fetch(src, log, isolation, "getone" if style == "getone" else "getall",
                       1 if style == "getall1" else None)
    FM.check_delivery(src, log, isolation, res)
    # markers never delivered (at either level): every delivered offset belongs to a data batch
    # (implied by equality with the reference reader, which never lists a control batch)


# ------------------------------------------------------------------------------------------
# S1: the whole path from the wire -- Fetch responses of every protocol version that carries the
# transactional fields -- through the real consumer


FETCH_VERSION_CAPS = [4, 5, 7, 10, 11]


def s1_fetch_versions(src, shape):
    from . import conssim
    cap = FETCH_VERSION_CAPS[src.choice("highest_fetch_version_of_the_broker", len(FETCH_VERSION_CAPS))]
    iso = src.choice("isolation", 2)
    cfg = {"isolation": iso, "policy": "earliest", "versions": {1: (0, cap)}, "seek_targets": [0, 1], "start": [None, 2][src.choice("start", 2)]}
    res = conssim.run_consumer(src, shape, cfg, 2, max_faults=0)
    used = sorted({a["req"].get("version") for a in res["cluster"].arrivals if a["req"]["api"] == "Fetch"})
    src.note({"shape": shape, "fetch_versions_used": used, "trace": res.get("trace")})
    src.check("deadlock" not in res, "consumer run did not finish in bounded virtual time: " + str(res.get("deadlock")))
    src.check(all(v == cap for v in used) or src.twin, f"the consumer used Fetch {used} against a broker whose highest version is {cap}", used=used)


def s2_reset_to_latest(src):
    """a consumer that starts at 'latest' while a transaction is open: read_committed starts at the last stable
    offset, so once the transaction is decided it delivers exactly that transaction's records (if committed) and
    what follows; read_uncommitted starts at the high watermark; markers never"""
    import asyncio
    import aiokafka.errors as E
    from aiokafka import AIOKafkaConsumer
    from aiokafka.structs import TopicPartition
    from env import simkafka, vloop
    from specs import refcodec as R
    iso = src.choice("isolation", 2)
    outcome = ["commit", "abort"][src.choice("open_transaction_ends_by", 2)]
    how = ["auto_offset_reset_latest", "seek_to_end"][src.choice("position_from", 2)]
    cluster = simkafka.Cluster(nodes=(0, 1), topics={"t": 1})
    log = cluster.logs[("t", 0)]

    def plain(o):
        rec = dict(offset=o, timestamp=1000 + o, key=b"k%d" % o, value=b"v", headers=[])
        log.prefill(R.encode_v2(o, [rec]), o, o, [(o, rec["key"], b"v", (), 1000 + o)])

    plain(0)
    recs = [dict(offset=o, timestamp=1000 + o, key=b"k%d" % o, value=b"v", headers=[]) for o in (1, 2)]
    log.prefill(R.encode_v2(1, recs, transactional=True, producer_id=7, producer_epoch=0, base_sequence=0), 1, 2,
                [(r["offset"], r["key"], b"v", (), r["timestamp"]) for r in recs], transactional=True, pid=7)
    res = {"got": []}
    tp = TopicPartition("t", 0)

    async def main(loop):
        with simkafka.installed(cluster):
            c = AIOKafkaConsumer(bootstrap_servers="h0:9092", group_id=None, enable_auto_commit=False,
                                 auto_offset_reset="latest" if how == "auto_offset_reset_latest" else "earliest",
                                 isolation_level="read_committed" if iso else "read_uncommitted",
                                 fetch_max_wait_ms=50, request_timeout_ms=1000, retry_backoff_ms=50)
            await c.start()
            c.assign([tp])
            if how == "seek_to_end":
                await c.seek_to_end(tp)
            res["start"] = await asyncio.wait_for(c.position(tp), 5)
            # the transaction is decided, one more record follows
            raw = R.encode_v2(3, [dict(offset=3, timestamp=1003, **R.control_record(outcome == "commit"))], transactional=True, control=True,
                              producer_id=7, producer_epoch=0)
            log.prefill(raw, 3, 3, [(3, None, None, (), 0)], control=True, marker=outcome, transactional=True, pid=7)
            plain(4)
            t_end = loop.time() + 2.0
            try:
                while loop.time() < t_end:
                    batch = await c.getmany(timeout_ms=100)
                    for _, rs in batch.items():
                        res["got"].extend(r.offset for r in rs)
            except E.KafkaError as e:
                res["exc"] = repr(e)
            try:
                await asyncio.wait_for(c.stop(), 10)
            except (asyncio.TimeoutError, asyncio.CancelledError, Exception):  # noqa: BLE001
                pass

    try:
        vloop.run(main, max_vtime=120)
    except vloop.Deadlock as e:
        res["deadlock"] = str(e)
    want_start = 1 if iso else 3
    want = ([1, 2] if (iso and outcome == "commit") else []) + [4]
    if src.twin:
        want = want[:-1]
    info = dict(isolation=iso, outcome=outcome, position_from=how, start=res.get("start"), delivered=res["got"], exc=res.get("exc"))
    src.note(info)
    src.check("deadlock" not in res and "exc" not in res, "consumer run failed: " + str(res.get("deadlock") or res.get("exc")), **info)
    src.check(res.get("start") == want_start, f"start position at 'latest' is {res.get('start')}, expected {want_start} "
              f"({'last stable offset' if iso else 'high watermark'})", **info)
    src.check(res["got"] == want, f"delivered {res['got']}, expected {want}", **info)


def harnesses(tier):
    q = tier == "quick"
    confs = [(1, 1, False), (2, 2, False), (3, 2, False)] if q else [(2, 2, True), (3, 3, False), (4, 2, False), (3, 2, True)]
    hs = []
    hs.append(Harness(name="S2_latest_with_open_transaction", fn=s2_reset_to_latest, functions=[PartitionRecords._unpack_records], shape="S",
                      symbolic_vars="choices: isolation level, how the open transaction ends, position from auto_offset_reset=latest or seek_to_end()",
                      bounds={"log": "offsets 0..4, one open transaction"}, stubs=["SimConn broker model", "virtual-time loop", "log built by the reference codec"],
                      max_seconds=120, twin_max_paths=50))
    for shape in (["txn_mixed"] if q else ["txn_mixed", "txn_open", "txn_same_pid", "v2_control"]):
        hs.append(Harness(
            name=f"S1_fetch_versions_{shape}", fn=s1_fetch_versions, params={"shape": shape},
            functions=[PartitionRecords.__init__, PartitionRecords._unpack_records], shape="S",
            symbolic_vars="choices: highest Fetch version the broker offers (4, 5, 7, 10, 11), isolation level, start position, two consumer calls, one batch or all per response",
            bounds={"fetch_versions": FETCH_VERSION_CAPS, "calls": 2},
            stubs=["SimConn broker model (Fetch v0-v11 per the protocol guide)", "virtual-time loop", "log built by the reference codec"],
            max_seconds=300, max_paths=500000, twin_max_paths=300))
    for nb, npr, extra in confs:
        hs.append(Harness(
            name=f"U1_filter_{nb}batches_{npr}producers{'_laterindex' if extra else ''}", fn=u1_filter,
            params={"nbatches": nb, "nproducers": npr, "extra_index": extra},
            functions=[PartitionRecords._unpack_records, PartitionRecords._consume_aborted_up_to,
                       PartitionRecords._contains_abort_marker, PartitionRecords.__init__,
                       FetchResult.getone, FetchResult.getall, FetchResult.check_assignment, FetchResult._update_position],
            shape="U",
            symbolic_vars="all offsets (batch bases, compaction gaps, last-offset tails, fetch offset, aborted-index first offsets) as unbounded z3 Ints; batch kinds, producers, record counts, outcomes of open transactions, isolation level, retrieval style as choices",
            bounds={"batches": nb, "producers": npr, "records_per_batch": "0..2", "offsets": "unbounded"},
            assumptions=["(a) batch ranges increase; record offsets inside a batch increase; next_offset >= last record + 1",
                         "(b) the fetch offset lies inside the first returned batch",
                         "(c) a transactional batch without a later marker in the response has a decided outcome (response cut below the LSO) and is in the index iff aborted",
                         "(d) an index entry's first offset is <= the first in-response batch of its transaction and > the previous marker of the same producer (transactions of one producer are sequential)"],
            stubs=["record batches replaced by stub objects with the attributes PartitionRecords reads (base_offset, next_offset, producer_id, flags, records)"],
            max_seconds=400 if q else 3000, budget=(900 if nb == 4 else 0), max_paths=3000000, twin_max_paths=3000))
    return hs
