"""C13 — consumption starts at the committed offset, else per auto_offset_reset."""
import asyncio

from symx import Harness

import aiokafka.errors as E
from aiokafka import AIOKafkaConsumer
from aiokafka.consumer.fetcher import Fetcher
from aiokafka.consumer.group_coordinator import GroupCoordinator, NoGroupCoordinator
from aiokafka.structs import TopicPartition

from env import simkafka, vloop
from specs import refcodec as R

TP = TopicPartition("t", 0)
LOG_START, LSO, HW = 2, 6, 8
COMMITTED = {"absent": None, "inside": 4, "below_start": 0, "beyond_end": 50}
POLICIES = ["earliest", "latest", "none"]


def _fill(cluster):
    log = cluster.logs[("t", 0)]
    for o in range(0, 6):
        rec = dict(offset=o, timestamp=1000 + o, key=b"k%d" % o, value=b"v", headers=[])
        log.prefill(R.encode_v2(o, [rec]), o, o, [(o, rec["key"], b"v", (), 1000 + o)])
    # an open transaction at the tail: last stable offset 6 < high watermark 8
    recs = [dict(offset=o, timestamp=1000 + o, key=b"k%d" % o, value=b"v", headers=[]) for o in (6, 7)]
    log.prefill(R.encode_v2(6, recs, transactional=True, producer_id=9, producer_epoch=0, base_sequence=0), 6, 7,
                [(r["offset"], r["key"], b"v", (), r["timestamp"]) for r in recs], transactional=True, pid=9)
    log.log_start = LOG_START  # retention removed offsets 0, 1


class Faults:
    MENU = {9: ["none", ("error", 14), ("error", 16), "drop_before", "timeout_before"],
            2: ["none", ("error", 6), ("error", 5), ("error", 3), "drop_before", "timeout_before", "migrate"],
            1: ["none", ("error", 6), "drop_before"]}

    def __init__(self, src, max_requests, max_faults):
        self.src, self.max_requests, self.max_faults = src, max_requests, max_faults
        self.seen = self.used = 0
        self.enabled = False
        self.log = []

    def __call__(self, cluster, node, req, entry):
        k = req.API_KEY
        if not self.enabled or k not in self.MENU:
            return None
        self.seen += 1
        if self.seen > self.max_requests or self.used >= self.max_faults:
            return None
        menu = self.MENU[k]
        f = menu[self.src.choice(f"fault{self.seen}", len(menu))]
        if f == "none":
            return None
        self.used += 1
        self.log.append((self.seen, simkafka.NAMES[k], f))
        if f == "migrate":
            for tp, ld in list(cluster.leader.items()):
                if ld == node:
                    cluster.leader[tp] = [n for n in cluster.nodes if n != node][0]
            return ("error", 6)
        return f


def expected_start(committed, policy, iso):
    """(position, exception) per the property's statement"""
    end = LSO if iso == 1 else HW
    reset = {"earliest": LOG_START, "latest": end, "none": None}[policy]
    c = COMMITTED[committed]
    if c is None:
        return (reset, None) if reset is not None else (None, "NoOffsetForPartitionError")
    if LOG_START <= c <= HW:
        return c, None
    return (reset, None) if reset is not None else (None, "OffsetOutOfRangeError")


def s1_start(src, group, max_faults):
    committed = list(COMMITTED)[src.choice("committed", 4 if group else 1)]
    policy = POLICIES[src.choice("policy", 3)]
    iso = src.choice("isolation", 2)
    seek_at = [None, 0.0, 0.0025, 0.0045, 0.0065, 0.0085, 0.012][src.choice("seek_at", 7)]
    seek_to = [3, 5][src.choice("seek_to", 2)] if seek_at is not None else None
    slow_lookup = [0.0, 0.004][src.choice("slow_lookups", 2)]
    cluster = simkafka.Cluster(nodes=(0, 1), topics={"t": 1})
    _fill(cluster)
    cluster.offset_fetch_delay = slow_lookup
    if group and COMMITTED[committed] is not None:
        cluster.group("g").offsets[("t", 0)] = (COMMITTED[committed], "")
    faults = Faults(src, 4, max_faults)
    cluster.fault_fn = faults
    res = {}

    async def main(loop):
        with simkafka.installed(cluster):
            c = AIOKafkaConsumer(bootstrap_servers="h0:9092", group_id="g" if group else None,
                                 enable_auto_commit=False, auto_offset_reset=policy,
                                 isolation_level="read_committed" if iso else "read_uncommitted",
                                 fetch_max_wait_ms=50, request_timeout_ms=1000, retry_backoff_ms=50,
                                 session_timeout_ms=3000, heartbeat_interval_ms=500)
            if group:
                c.subscribe(["t"])
            await c.start()
            if not group:
                c.assign([TP])
            faults.enabled = True
            t0 = loop.time()
            if seek_at is not None:
                async def seeker():
                    await asyncio.sleep(seek_at)
                    try:
                        c.seek(TP, seek_to)
                        res["seek_done_at"] = loop.time() - t0
                    except (E.IllegalStateError, AssertionError) as e:  # partition not assigned yet
                        res["seek_error"] = repr(e)
                asyncio.ensure_future(seeker())
            # first delivery or exception
            try:
                r = await asyncio.wait_for(c.getone(), timeout=4.0)
                res["first"] = r.offset
            except asyncio.TimeoutError:
                res["first"] = None
            except E.KafkaError as e:
                res["exc"] = type(e).__name__
                res["exc_obj"] = repr(e)
            faults.enabled = False
            try:
                res["position"] = await asyncio.wait_for(c.position(TP), timeout=3.0)
            except asyncio.TimeoutError:
                res["position"] = "no valid position"
            except (E.KafkaError, E.IllegalStateError) as e:
                res["position"] = "raises " + type(e).__name__
            try:
                await asyncio.wait_for(c.stop(), timeout=30)
            except (asyncio.TimeoutError, asyncio.CancelledError, Exception):  # noqa: BLE001
                pass

    try:
        vloop.run(main, max_vtime=300)
    except vloop.Deadlock as e:
        res["deadlock"] = str(e)
    info = dict(group=group, committed=committed, policy=policy, isolation=iso, seek_at=seek_at, seek_to=seek_to,
                faults=faults.log, slow=slow_lookup, observed={k: v for k, v in res.items() if k != "exc_obj"})
    src.note(info)
    src.check("deadlock" not in res, "consumer did not settle: " + str(res.get("deadlock")), **info)
    want_pos, want_exc = expected_start(committed if group else "absent", policy, iso)
    end = LSO if iso == 1 else HW
    visible = [o for o in range(LOG_START, end)]
    if src.twin and want_pos is not None:
        want_pos += 1
    if seek_at is not None and "seek_error" not in res:
        # an explicit seek always wins, wherever it lands relative to the lookup / reset
        if "exc" in res:
            # the error for the start position may surface before the seek was issued
            src.check(want_exc is not None and res["exc"] == want_exc, f"getone raised {res.get('exc')} although a seek was issued", **info)
            return
        first_visible = [o for o in visible if o >= seek_to]
        if res.get("first") is not None and res.get("seek_done_at") is not None:
            # a record handed out before the seek landed belongs to the start position; afterwards the sought one
            ok = res["first"] == (first_visible[0] if first_visible else None) or (want_pos is not None and res["first"] == want_pos and seek_at > 0.004)
            src.check(ok, f"after seek({seek_to}) the next record is {res['first']}", **info)
        if res.get("first") == (first_visible[0] if first_visible else None):
            src.check(res.get("position") == res["first"] + 1 if res.get("first") is not None else True,
                      "position after the first record of the sought offset", **info)
        elif res.get("first") is None:
            src.check(res.get("position") == seek_to or src.twin is None, f"seek({seek_to}) was overridden: position is {res.get('position')}", **info)
        return
    if want_exc is not None:
        src.check(res.get("exc") == want_exc, f"expected {want_exc} to be raised to the caller, observed {res.get('exc') or res.get('first')}", **info)
        return
    src.check("exc" not in res, f"unexpected {res.get('exc')} raised", **info)
    first_visible = [o for o in visible if o >= want_pos]
    want_first = first_visible[0] if first_visible else None
    src.check(res.get("first") == want_first,
              f"first record delivered is {res.get('first')}, expected {want_first} (start position {want_pos})", **info)
    want_position = (want_first + 1) if want_first is not None else want_pos
    src.check(res.get("position") == want_position, f"position() is {res.get('position')}, expected {want_position}", **info)


# ------------------------------------------------------------------------------------------
# U1: one fetch answer against an arbitrary current position (symbolic offsets): an answer to a fetch whose
# offset is no longer the position -- the application has sought elsewhere, or a reset moved it -- changes
# nothing; an out-of-range answer for the current position starts the reset the policy asks for


class _Req:
    def __init__(self, offset):
        self.topics = [("t", [(0, offset, 1000)])]


class _Resp:
    def __init__(self, version, error, hw):
        self.API_VERSION = version
        if version >= 11:
            part = (0, error, hw, hw, 0, [], -1, b"")
        elif version >= 5:
            part = (0, error, hw, hw, 0, [], b"")
        elif version >= 4:
            part = (0, error, hw, hw, [], b"")
        else:
            part = (0, error, hw, b"")
        self.topics = [("t", [part])]


class _Client:
    def __init__(self, loop, resp):
        self._loop = loop
        self._metadata_max_age_ms = 300000
        self.resp = resp
        self.metadata_updates = 0

    async def send(self, node_id, request):
        return self.resp

    def force_metadata_update(self):
        self.metadata_updates += 1
        f = self._loop.create_future()
        f.set_result(True)
        return f


def u1_fetch_answer(src):
    from aiokafka.consumer.subscription_state import SubscriptionState
    from aiokafka.consumer.fetcher import FetchError
    from .common import in_loop
    policy = POLICIES[src.choice("policy", 3)]
    code = [1, 0, 6, 3][src.choice("answer", 4)]          # OFFSET_OUT_OF_RANGE, no error (nothing new), NOT_LEADER, UNKNOWN_TOPIC
    version = [3, 4, 7, 11][src.choice("fetch_version", 4)]
    pos = src.zint("current_position", 0)
    foff = src.zint("offset_the_fetch_was_sent_for", 0)
    hw = src.zint("high_watermark", 0)
    out = {}

    async def run():
        loop = asyncio.get_event_loop()
        sub = SubscriptionState()
        sub.assign_from_user([TP])
        assignment = sub.subscription.assignment
        st = assignment.state_value(TP)
        st.seek(pos)
        client = _Client(loop, _Resp(version, code, hw))
        f = Fetcher(client, sub, auto_offset_reset=policy, retry_backoff_ms=10)
        f._fetch_task.cancel()
        try:
            await f._fetch_task
        except asyncio.CancelledError:
            pass
        await f._proc_fetch_request(assignment, 0, _Req(foff))
        out.update(st=st, fetcher=f, client=client)

    in_loop(run)
    st, f = out["st"], out["fetcher"]
    stale = bool(pos != foff)
    rec = f._records.get(TP)
    info = dict(policy=policy, answer=code, fetch_version=version)
    if stale or code in (0, 6, 3):
        ok = st.has_valid_position and rec is None
        if src.twin and not stale and code == 0:
            ok = False
        src.check(ok, "an answer for an offset that is no longer the position (or one that carries nothing) disturbed the partition: "
                  "position invalidated or an error queued for the application", stale=stale, **info)
        if st.has_valid_position:
            src.check(st.position == pos, "the position moved although nothing was delivered", **info)
    else:
        # OFFSET_OUT_OF_RANGE for the current position
        if policy == "none":
            src.check(isinstance(rec, FetchError) and st.has_valid_position,
                      "policy none: an out-of-range position must be reported to the application (OffsetOutOfRangeError)", **info)
        else:
            src.check(not st.has_valid_position and rec is None,
                      "an out-of-range position must start a reset per auto_offset_reset", **info)
            from aiokafka.consumer.fetcher import OffsetResetStrategy
            want = {"earliest": OffsetResetStrategy.EARLIEST, "latest": OffsetResetStrategy.LATEST}[policy]
            got = getattr(st, "reset_strategy", getattr(st, "_reset_strategy", None))
            src.check(got == want, f"reset strategy after an out-of-range answer is {got}, policy {policy} asks for {want}", **info)


# ------------------------------------------------------------------------------------------
# S2: two partitions of one group member whose committed-offset lookups do not start together (the second
# partition has no leader for a while) and a coordinator that answers OffsetFetch slowly


def s2_two_partitions(src):
    policy = POLICIES[src.choice("policy", 2)]
    c0 = [None, 3, 5][src.choice("committed_p0", 3)]
    c1 = [None, 4][src.choice("committed_p1", 2)]
    leader_at = [None, 0.002, 0.006, 0.012, 0.03][src.choice("p1_gets_a_leader_at", 5)]
    slow = [0.0, 0.008, 0.04][src.choice("offset_fetch_delay", 3)]
    cluster = simkafka.Cluster(nodes=(0, 1), topics={"t": 2})
    for p in (0, 1):
        log = cluster.logs[("t", p)]
        for o in range(0, 8):
            rec = dict(offset=o, timestamp=1000 + o, key=b"k%d" % o, value=b"p%d" % p, headers=[])
            log.prefill(R.encode_v2(o, [rec]), o, o, [(o, rec["key"], rec["value"], (), 1000 + o)])
    g = cluster.group("g")
    if c0 is not None:
        g.offsets[("t", 0)] = (c0, "")
    if c1 is not None:
        g.offsets[("t", 1)] = (c1, "")
    cluster.offset_fetch_delay = slow
    real = cluster.leader[("t", 1)]
    if leader_at is not None:
        cluster.leader[("t", 1)] = -1
    res = {"first": {}}

    async def main(loop):
        with simkafka.installed(cluster):
            c = AIOKafkaConsumer(bootstrap_servers="h0:9092", group_id="g", enable_auto_commit=False, auto_offset_reset=policy,
                                 fetch_max_wait_ms=50, request_timeout_ms=1000, retry_backoff_ms=20, metadata_max_age_ms=300000,
                                 session_timeout_ms=3000, heartbeat_interval_ms=500, max_poll_records=1)
            c.subscribe(["t"])
            await c.start()
            if leader_at is not None:
                def elect():
                    cluster.leader[("t", 1)] = real
                loop.call_later(leader_at, elect)
            t_end = loop.time() + 3.0
            try:
                while loop.time() < t_end and len(res["first"]) < 2:
                    batch = await c.getmany(timeout_ms=100)
                    for tp, recs in batch.items():
                        if recs and tp.partition not in res["first"]:
                            res["first"][tp.partition] = recs[0].offset
            except E.KafkaError as e:
                res["exc"] = repr(e)
            res["pos"] = {}
            for p in (0, 1):
                try:
                    res["pos"][p] = await asyncio.wait_for(c.position(TopicPartition("t", p)), timeout=2.0)
                except (asyncio.TimeoutError, E.KafkaError, E.IllegalStateError) as e:
                    res["pos"][p] = "no position: " + type(e).__name__
            res["requests"] = [(a["req"]["api"], round(a["time"], 4)) for a in cluster.arrivals if a["req"]["api"] in ("OffsetFetch", "ListOffsets")]
            try:
                await asyncio.wait_for(c.stop(), timeout=30)
            except (asyncio.TimeoutError, asyncio.CancelledError, Exception):  # noqa: BLE001
                pass

    try:
        vloop.run(main, max_vtime=300)
    except vloop.Deadlock as e:
        res["deadlock"] = str(e)
    info = dict(policy=policy, committed=[c0, c1], p1_leader_at=leader_at, offset_fetch_delay=slow, observed=str(res)[:600])
    src.note(info)
    src.check("deadlock" not in res, "consumer did not settle: " + str(res.get("deadlock")), **info)
    src.check("exc" not in res, "unexpected error raised to the caller: " + str(res.get("exc")), **info)
    for p, cm in ((0, c0), (1, c1)):
        want = cm if cm is not None else (0 if policy == "earliest" else 8)
        if src.twin and p == 1:
            want += 1
        got = res["first"].get(p)
        if want < 8:
            src.check(got == want, f"partition {p}: first record delivered is {got}, expected {want} "
                      f"({'committed offset' if cm is not None else 'reset per policy'})", **info)
        else:
            src.check(got is None and res.get("pos", {}).get(p) == 8 + (1 if src.twin and p == 1 else 0) - (1 if src.twin and p == 1 else 0),
                      f"partition {p}: expected to start at the log end (8), observed first={got} position={res.get('pos', {}).get(p)}", **info)


# ------------------------------------------------------------------------------------------
# S3: the start position is decided anew at every (re)assignment: what an earlier generation found out
# (no committed offset under policy "none", an out-of-range position) must not leak into the next one


def s3_reassigned_after_commit(src):
    policy = ["none", "latest"][src.choice("policy", 2)]
    polled_in_gen1 = src.flag("application_polls_in_generation_1")
    commit_to = [3, 5][src.choice("transactional_job_commits", 2)]
    gap = [0.05, 0.4][src.choice("gap_before_second_member", 2)]
    cluster = simkafka.Cluster(nodes=(0, 1), topics={"t": 1})
    log = cluster.logs[("t", 0)]
    for o in range(0, 8):
        rec = dict(offset=o, timestamp=1000 + o, key=b"k%d" % o, value=b"v", headers=[])
        log.prefill(R.encode_v2(o, [rec]), o, o, [(o, rec["key"], b"v", (), 1000 + o)])
    res = {}

    def mk(cid):
        return AIOKafkaConsumer(bootstrap_servers="h0:9092", group_id="g", client_id=cid, enable_auto_commit=False,
                                auto_offset_reset=policy, fetch_max_wait_ms=50, request_timeout_ms=1000, retry_backoff_ms=20,
                                session_timeout_ms=3000, heartbeat_interval_ms=100, rebalance_timeout_ms=1000)

    async def main(loop):
        from aiokafka.structs import OffsetAndMetadata
        with simkafka.installed(cluster):
            a, b = mk("A"), mk("B")
            a.subscribe(["t"])
            await a.start()
            if polled_in_gen1:
                try:
                    r = await asyncio.wait_for(a.getone(), timeout=0.3)
                    res["gen1"] = r.offset
                except asyncio.TimeoutError:
                    res["gen1"] = None
                except E.KafkaError as e:
                    res["gen1"] = type(e).__name__
            await asyncio.sleep(gap)
            # a consume-transform-produce job commits an offset for the group through a transaction
            from . import txnsim
            prod = await txnsim.open_producer(cluster)
            try:
                await prod.begin_transaction()
                await prod.send_offsets_to_transaction({TP: OffsetAndMetadata(commit_to, "")}, "g")
                await prod.commit_transaction()
                res["b_commit"] = "ok"
            except E.KafkaError as e:
                res["b_commit"] = repr(e)
            await prod.stop()
            # a second member joins (and owns nothing: A sorts first): A is re-assigned the partition in generation 2
            b.subscribe(["t"])
            await b.start()
            await asyncio.sleep(0.3)
            res["owner_A"] = TP in a.assignment()
            try:
                r = await asyncio.wait_for(a.getone(), timeout=3.0)
                res["first"] = r.offset
            except asyncio.TimeoutError:
                res["first"] = None
            except E.KafkaError as e:
                res["exc"] = type(e).__name__
            for c in (b, a):
                try:
                    await asyncio.wait_for(c.stop(), timeout=30)
                except (asyncio.TimeoutError, asyncio.CancelledError, Exception):  # noqa: BLE001
                    pass

    try:
        vloop.run(main, max_vtime=300)
    except vloop.Deadlock as e:
        res["deadlock"] = str(e)
    info = dict(policy=policy, polled_in_generation_1=polled_in_gen1, commit_to=commit_to, gap=gap, observed=str(res))
    src.note(info)
    src.check("deadlock" not in res, "consumers did not settle: " + str(res.get("deadlock")), **info)
    if res.get("b_commit") != "ok" or not res.get("owner_A"):
        return  # the history this harness is about did not come about (commit refused / partition elsewhere)
    src.check("exc" not in res, f"{res.get('exc')} raised although the group has a committed offset for the re-assigned partition", **info)
    want = commit_to + (1 if src.twin else 0)
    if "exc" not in res:
        src.check(res.get("first") == want, f"first record after the re-assignment is {res.get('first')}, expected the committed offset {want}", **info)


def harnesses(tier):
    q = tier == "quick"
    confs = [(True, 0), (False, 0), (True, 1)] if q else [(True, 1), (False, 1), (True, 2)]
    hs = [Harness(
        name="U1_fetch_answer_vs_position", fn=u1_fetch_answer,
        functions=[Fetcher._proc_fetch_request], shape="U",
        symbolic_vars="current position, offset the fetch was sent for, high watermark (unbounded z3 Ints); policy, answer kind and Fetch version as choices",
        bounds={"partitions": 1}, stubs=["client.send returns a prepared response object (no wire decoding)", "real SubscriptionState"],
        max_seconds=120, twin_max_paths=100),
        Harness(
        name="S2_two_partitions_staggered_lookups", fn=s2_two_partitions,
        functions=[GroupCoordinator._maybe_refresh_commit_offsets, GroupCoordinator._do_fetch_commit_offsets,
                   Fetcher._update_fetch_positions],
        shape="S",
        symbolic_vars="choices: policy (earliest/latest), committed offsets of the two partitions (absent or inside), when the second partition gets a leader, OffsetFetch latency",
        bounds={"partitions": 2, "log": "offsets 0..7 each"},
        stubs=["SimConn broker + group coordinator model", "virtual-time loop", "log built by the reference codec"],
        max_seconds=300, max_paths=100000, twin_max_paths=300),
        Harness(
        name="S3_reassigned_after_commit", fn=s3_reassigned_after_commit,
        functions=[Fetcher._fetch_requests_routine, Fetcher._update_fetch_positions, GroupCoordinator._maybe_refresh_commit_offsets],
        shape="S",
        symbolic_vars="choices: policy (none/latest), whether the application polls in the first generation, the offset a transactional job commits for the group, gap before it does",
        bounds={"generations": 3, "members": 2, "log": "offsets 0..7"},
        stubs=["SimConn broker + group coordinator model", "virtual-time loop", "log built by the reference codec"],
        max_seconds=300, max_paths=100000, twin_max_paths=300)]
    for group, mf in confs:
        hs.append(Harness(
            name=f"S1_start_{'group' if group else 'groupless'}_{mf}faults", fn=s1_start, params={"group": group, "max_faults": mf},
            functions=[Fetcher._update_fetch_positions, Fetcher._proc_fetch_request, Fetcher._proc_offset_request,
                       GroupCoordinator._do_fetch_commit_offsets, GroupCoordinator._commit_refresh_routine,
                       NoGroupCoordinator._reset_committed_routine, AIOKafkaConsumer.seek, AIOKafkaConsumer.position],
            shape="S",
            symbolic_vars="choices: committed offset (absent / inside / below log start / beyond log end), policy (earliest/latest/none), isolation level, a seek at one of 6 instants between assignment and the end of the reset (or no seek), slow committed-offset lookup, one fault at the first OffsetFetch/ListOffsets/Fetch requests",
            bounds={"log": "offsets 2..7, log start 2, LSO 6, HW 8", "max_faults": mf},
            stubs=["SimConn broker + group coordinator model", "virtual-time loop", "log built by the reference codec"],
            max_seconds=400 if q else 2400, max_paths=2000000, twin_max_paths=300))
    return hs
