"""C14 — assignors give each subscribed partition exactly one subscribed owner, balanced."""
from symx import Harness, ZInt
from symx.core import SymBool

import aiokafka.coordinator.assignors.range as RANGE
from aiokafka.coordinator.assignors.range import RangePartitionAssignor
from aiokafka.coordinator.assignors.roundrobin import RoundRobinPartitionAssignor
from aiokafka.coordinator.assignors.sticky.sticky_assignor import StickyAssignmentExecutor, StickyPartitionAssignor

from . import assignsim as A
from .common import patched


# ------------------------------------------------------------------------------------------ K1


class SymSeq:
    """sorted list of the partitions 0..n-1 of a topic whose size n is symbolic"""

    def __init__(self, n):
        self.n = n

    def __getitem__(self, s):
        assert isinstance(s, slice) and s.step is None
        return SymSlice(s.start, s.stop, self.n)


class SymSlice:
    def __init__(self, start, stop, n):
        self.start, self.stop, self.n = start, stop, n


def _len(x):
    return x.n if isinstance(x, SymSeq) else len(x)


def _sorted(x, *a, **k):
    return x if isinstance(x, SymSeq) else sorted(x, *a, **k)


def _min(a, b):
    if isinstance(a, ZInt) or isinstance(b, ZInt):
        return a if a <= b else b
    return min(a, b)


class _Cluster:
    def __init__(self, n):
        self.n = n

    def partitions_for_topic(self, topic):
        return SymSeq(self.n)


def k1_range_arithmetic(src, nmembers):
    """range slices tile [0, n) for EVERY n >= 0: slices are contiguous in member order, sizes differ
    by at most one, the first n mod c members get the extra partition"""
    n = src.zint("partitions", 0)
    members = {f"m{i}": RangePartitionAssignor.metadata(["t"]) for i in range(nmembers)}
    with patched(RANGE, len=_len, sorted=_sorted, min=_min):
        out = RangePartitionAssignor.assign(_Cluster(n), members)
    prev_end = 0
    sizes = []
    for i in range(nmembers):
        a = out[f"m{i}"].assignment
        src.check(len(a) == 1 and a[0][0] == "t", "member has no slice of the topic")
        sl = a[0][1]
        src.check(isinstance(sl, SymSlice), "assignment is not a slice of the sorted partition list")
        src.check(sl.start == prev_end, f"slice of member {i} does not start where the previous one ended (gap or overlap)")
        size = sl.stop - sl.start
        src.check(size >= 0, "negative slice")
        sizes.append(size)
        prev_end = sl.stop
    src.check(prev_end == (n + 1 if src.twin else n), "the slices do not cover exactly the partitions 0..n-1")
    q, r = n // nmembers, n % nmembers
    for i, s in enumerate(sizes):
        # first (n mod c) members get one extra: size_i == q + [i < r]
        extra = (i < r)
        if extra:
            src.check(s == q + 1, f"member {i} (< n mod c) does not get the extra partition")
        else:
            src.check(s == q, f"member {i} (>= n mod c) does not get floor(n/c) partitions")


# ------------------------------------------------------------------------------------------ U1


def u1_layouts(src, assignor, max_members, ntopics, max_parts):
    parts, subs = A.choose_layout(src, max_members, ntopics, max_parts)
    res = A.run_assign(assignor, parts, subs)
    src.note({"partitions": parts, "subscriptions": subs, "result": res})
    A.check_validity(src, assignor, parts, subs, res)
    A.check_balance(src, assignor, parts, subs, res)
    if assignor == "sticky":
        # second round with the previous assignment carried as user data: still valid and balanced
        kind, subs2, gone, new = A.second_round(src, subs, max_new=1)
        res2 = A.run_assign("sticky", parts, subs2, previous={m: res[m] for m in res if m in subs2}, generation=1)
        A.check_validity(src, "sticky", parts, subs2, res2, tag="second round: ")
        A.check_balance(src, "sticky", parts, subs2, res2, tag="second round: ")
        if kind == "same" and len(subs) >= 2:
            # a member that missed a generation re-joins with stale (older-generation) user data
            sr = A.stale_rejoin(src, parts, subs, res)
            if sr is not None:
                absent, s2, r2, r3, s3 = sr
                A.check_validity(src, "sticky", parts, s3, r3, tag="stale re-join: ")
                A.check_balance(src, "sticky", parts, s3, r3, tag="stale re-join: ")


def u2_sticky_userdata(src, parts, full, any_topic=False):
    """sticky with arbitrary previous-assignment user data of two generations: members m0, m1 report
    generation-2 ownership of any partitions of their subscribed topics, m2 re-joins with stale
    generation-1 claims that may conflict with them; the result must still be valid and KIP-54 balanced"""
    import itertools
    topics = list(parts)
    subsets = [s for r in range(1, len(topics) + 1) for s in itertools.combinations(topics, r)]
    subs = {m: list(subsets[src.choice(f"sub_{m}", len(subsets))]) for m in ("m0", "m1", "m2")}
    prev = {"m0": [], "m1": [], "m2": []}
    for t in topics:
        for p in range(parts[t]):
            # any_topic: a member may have changed its subscription; its user data still names what it owned before
            cands = [None] + [m for m in ("m0", "m1") if any_topic or t in subs[m]]
            o = cands[src.choice(f"owner_{t}{p}", len(cands))]
            if o is not None:
                prev[o].append((t, p))
    for t in topics:
        if t not in subs["m2"] and not any_topic:
            continue
        if full:
            for p in range(parts[t]):
                if src.flag(f"stale_{t}{p}"):
                    prev["m2"].append((t, p))
        elif src.flag(f"stale_all_{t}"):
            prev["m2"] += [(t, p) for p in range(parts[t])]
    res = A.run_assign("sticky", parts, subs, previous=prev, generation={"m0": 2, "m1": 2, "m2": 1})
    src.note({"subscriptions": subs, "previous": prev, "result": res})
    A.check_validity(src, "sticky", parts, subs, res, tag="user data of two generations: ")
    A.check_balance(src, "sticky", parts, subs, res, tag="user data of two generations: ")


def u3_sticky_growth(src, max_a, b_sizes, growths):
    """a second sticky round after a topic has gained partitions and members with any subscriptions have joined:
    the previous owners keep reporting what they had; the new assignment is valid and KIP-54 balanced"""
    import itertools
    topics = ["ta", "tb"]
    subsets = [s for r in range(1, 3) for s in itertools.combinations(topics, r)]
    parts = {"ta": 1 + src.choice("partitions_ta", max_a), "tb": b_sizes[src.choice("partitions_tb", len(b_sizes))]}
    nold = 1 + src.choice("old_members", 2)
    subs = {f"m{i}": list(subsets[src.choice(f"sub_m{i}", len(subsets))]) for i in range(nold)}
    res = A.run_assign("sticky", parts, subs)
    A.check_validity(src, "sticky", parts, subs, res, tag="round 1: ")
    grow_t = topics[src.choice("topic_that_grows", 2)]
    parts2 = dict(parts)
    parts2[grow_t] += growths[src.choice("new_partitions", len(growths))]
    nnew = src.choice("new_members", 3)
    names = [["a0", "a1"], ["x0", "y0"]][src.choice("new_member_ids_sort_last", 2)]
    subs2 = dict(subs)
    for j in range(nnew):
        subs2[names[j]] = list(subsets[src.choice(f"sub_new{j}", len(subsets))])
    res2 = A.run_assign("sticky", parts2, subs2, previous=res, generation=1)
    src.note({"partitions": parts, "then": parts2, "subscriptions": subs2, "first": res, "second": res2})
    A.check_validity(src, "sticky", parts2, subs2, res2, tag="after the topic grew: ")
    A.check_balance(src, "sticky", parts2, subs2, res2, tag="after the topic grew: ")


def harnesses(tier):
    q = tier == "quick"
    hs = [Harness(name=f"U2_sticky_userdata_{'x'.join(str(v) for v in parts.values())}{'_full' if full else ''}{'_dropped_topics' if anyt else ''}", fn=u2_sticky_userdata,
                  params={"parts": parts, "full": full, "any_topic": anyt},
                  functions=[StickyPartitionAssignor.assign, StickyAssignmentExecutor._init_current_assignments,
                             StickyAssignmentExecutor.balance, StickyAssignmentExecutor._perform_reassignments],
                  shape="U",
                  symbolic_vars="finite-domain choices: subscription of each of 3 members, generation-2 owner of every partition (m0/m1/none), stale generation-1 claims of m2",
                  bounds={"partitions": parts, "members": 3}, note="exhaustive enumeration by the engine's DFS",
                  max_seconds=600 if q else 3000, max_paths=5000000, twin_max_paths=5000)
          for parts, full, anyt in ([({"ta": 3, "tb": 2}, False, False), ({"ta": 3, "tb": 2}, False, True)] if q else
                                    [({"ta": 3, "tb": 2}, True, False), ({"ta": 2, "tb": 2, "tc": 1}, False, False), ({"ta": 3, "tb": 2}, True, True)])]
    hs.append(Harness(name="U3_sticky_after_topic_growth", fn=u3_sticky_growth,
                      params={"max_a": 2, "b_sizes": [3, 5], "growths": [0, 2]} if q else {"max_a": 3, "b_sizes": [2, 3, 4, 5], "growths": [0, 1, 2, 3]},
                      functions=[StickyPartitionAssignor.assign, StickyAssignmentExecutor.balance, StickyAssignmentExecutor._perform_reassignments],
                      shape="U",
                      symbolic_vars="finite-domain choices: partition counts, 1-2 old members and 0-2 new members with any subscriptions, which topic grows and by how much, ids of the new members",
                      bounds={"topics": 2, "members": "1..4", "rounds": 2}, note="exhaustive enumeration by the engine's DFS",
                      max_seconds=600 if q else 3000, max_paths=5000000, twin_max_paths=5000))
    for n in ([1, 2, 3, 4] if q else [1, 2, 3, 4, 5, 6, 7]):
        hs.append(Harness(name=f"K1_range_arithmetic_{n}members", fn=k1_range_arithmetic, params={"nmembers": n},
                          functions=[RangePartitionAssignor.assign], shape="K",
                          symbolic_vars="number of partitions of the topic: any integer >= 0 (z3 Int, unbounded)",
                          bounds={"members": n, "partitions": "unbounded"},
                          stubs=["len/sorted/min shadowed in the range module so that the partition list has symbolic length"]))
    for name, fns in (("range", [RangePartitionAssignor.assign]), ("roundrobin", [RoundRobinPartitionAssignor.assign]),
                      ("sticky", [StickyPartitionAssignor.assign, StickyAssignmentExecutor.balance,
                                  StickyAssignmentExecutor.perform_initial_assignment, StickyPartitionAssignor.parse_member_metadata])):
        if q:
            confs = [(3, 2, 3)] if name != "sticky" else [(3, 2, 2)]
        else:
            confs = [(4, 3, 4)] if name != "sticky" else [(4, 2, 4), (3, 3, 3)]
        for mm, nt, mp in confs:
            hs.append(Harness(name=f"U1_layouts_{name}_{mm}m_{nt}t_{mp}p", fn=u1_layouts,
                              params={"assignor": name, "max_members": mm, "ntopics": nt, "max_parts": mp},
                              functions=fns, shape="U",
                              symbolic_vars="finite-domain choices: member count, partitions per topic (incl. 'no metadata'), every non-empty subscription per member; for sticky a second round (same / members leave / a member joins) with the previous assignment as user data",
                              bounds={"members": f"1..{mm}", "topics": nt, "partitions_per_topic": f"none,0..{mp}"},
                              note="exhaustive enumeration of the layout space by the engine's DFS (no data-symbolic variable)",
                              max_seconds=500 if q else 3000, max_paths=5000000, twin_max_paths=3000))
    return hs
