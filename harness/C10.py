"""C10 — decoding untrusted bytes terminates and fails cleanly (pure-Python decoders decided here;
the compiled extension cannot be encoded by this technique, see DESIGN §5)."""
import struct
import zlib

from symx import Harness, SymInt, s_and, s_not
from symx import shims
from symx.shims import SymBuf

import aiokafka.record.default_records as DR
import aiokafka.record.legacy_records as LR
from aiokafka.errors import CorruptRecordException, UnsupportedCodecError
from aiokafka.record.default_records import _DefaultRecordBatchPy
from aiokafka.record.legacy_records import _LegacyRecordBatchPy
from aiokafka.record.memory_records import _MemoryRecordsPy
from aiokafka.record.util import decode_varint_py

from specs import refcodec as R
from . import cext as CX
from .common import Runaway, patched, watchdog

CLEAN = (CorruptRecordException, UnsupportedCodecError, ValueError, IndexError, AssertionError, struct.error,
         KeyError, TypeError, OverflowError, UnicodeDecodeError, zlib.error, EOFError, OSError)


# ------------------------------------------------------------------------------------------ U5 varint decoder


def u5_varint_arbitrary(src, nbytes):
    """decode_varint_py on arbitrary bytes: at most 10 bytes consumed, result inside int64, only
    ValueError / IndexError otherwise, never reads before pos"""
    buf = src.bytes("b", nbytes)
    try:
        value, pos = decode_varint_py(buf, 0)
    except ValueError:
        # legitimate only for encodings longer than 10 bytes
        src.check(nbytes >= 10 and s_and(*[(b & 0x80) == 0x80 for b in buf[:10]]) if nbytes >= 10 else False,
                  "decode_varint raised ValueError on an encoding that ends within 10 bytes")
        return
    except IndexError:
        src.check(s_and(*[(b & 0x80) == 0x80 for b in buf]), "IndexError although a terminating byte is present")
        return
    limit = 0 if src.twin else 10
    src.check(1 <= pos <= limit, f"varint decoder consumed {pos} bytes (more than 10)")
    # (the value of a 10-byte encoding may exceed int64 -- the 10th byte carries 7 bits -- which the
    # property does not forbid; only termination within 10 bytes and clean failure are asserted)
    # it stops at the first byte without continuation bit
    src.check((buf[pos - 1] & 0x80) == 0, "decoder stopped on a byte with the continuation bit")
    for b in buf[:pos - 1]:
        src.check((b & 0x80) == 0x80, "decoder read past a terminating byte")


# ------------------------------------------------------------------------------------------ U4 checksums


class _LegacyEnv:
    """legacy reader on SymBuf: struct shims built from the code's own format strings"""

    def __enter__(self):
        self.saved = {}
        for name in ("HEADER_STRUCT_V0", "HEADER_STRUCT_V1"):
            st = getattr(_LegacyRecordBatchPy, name)
            self.saved[name] = st
            setattr(_LegacyRecordBatchPy, name, shims.Struct(st.format))
        self.mod = (LR.struct, getattr(LR, "memoryview", None), LR.crc32)
        LR.struct = shims.struct_module
        LR.memoryview = shims.sym_memoryview
        LR.crc32 = lambda data: zlib.crc32(data.to_bytes() if isinstance(data, SymBuf) else bytes(data)) & 0xFFFFFFFF
        return self

    def __exit__(self, *a):
        for name, st in self.saved.items():
            setattr(_LegacyRecordBatchPy, name, st)
        LR.struct, mv, LR.crc32 = self.mod
        if mv is None:
            del LR.memoryview
        else:
            LR.memoryview = mv


def u4_legacy_crc(src, magic):
    """a v0/v1 message whose stored CRC is arbitrary: validate_crc() is true iff it equals crc32(content)"""
    rec = dict(offset=5, timestamp=7, key=b"key", value=b"value-bytes")
    raw = R.encode_legacy_message(magic, 5, 7, b"key", b"value-bytes")
    true_crc = struct.unpack_from(">I", raw, 12)[0]
    stored = src.bytes("stored_crc", 4)
    buf = SymBuf(list(raw[:12]) + stored + list(raw[16:]), False)
    with _LegacyEnv():
        batch = _LegacyRecordBatchPy(buf, magic)
        ok = batch.validate_crc()
    stored_val = shims._unpack_int("I", stored)
    same = stored_val == (true_crc ^ 1 if src.twin else true_crc)
    if ok:
        src.check(same, f"v{magic} message with a stored checksum that differs from crc32(content) reported valid")
    else:
        src.check(s_not(same), f"v{magic} message with the correct checksum reported invalid")


def u4_v2_crc(src):
    """v2 batch with arbitrary stored CRC field"""
    raw = R.encode_v2(10, [dict(offset=10, timestamp=5, key=b"k", value=b"v", headers=[])])
    true_crc = struct.unpack_from(">I", raw, 17)[0]
    stored = src.bytes("stored_crc", 4)
    buf = SymBuf(list(raw[:17]) + stored + list(raw[21:]), False)
    fmt = _DefaultRecordBatchPy.HEADER_STRUCT.format
    with patched(DR.DefaultRecordBase, HEADER_STRUCT=shims.Struct(fmt)), \
            patched(DR, bytearray=shims.sym_bytearray, memoryview=shims.sym_memoryview,
                    calc_crc32c=lambda d: R.crc32c(d.to_bytes() if isinstance(d, SymBuf) else bytes(d))):
        batch = _DefaultRecordBatchPy(buf)
        ok = batch.validate_crc()
    stored_val = shims._unpack_int("I", stored)
    same = stored_val == (true_crc ^ 1 if src.twin else true_crc)
    if ok:
        src.check(same, "v2 batch with a stored CRC that differs from crc32c(attributes..end) reported valid")
    else:
        src.check(s_not(same), "v2 batch with the correct CRC reported invalid")


# ------------------------------------------------------------------------------------------ U2 v2 record parser


def u2_v2_read_msg(src, nbytes):
    """_DefaultRecordBatchPy._read_msg on a batch whose record region is `nbytes` arbitrary bytes (and whose
    record count has an arbitrary low byte, the byte just in front of the region): every call either fails
    with an ordinary exception or returns a record and leaves the cursor strictly further on and inside the
    buffer -- so iteration terminates after at most len(region) records and never re-reads a byte"""
    raw = bytearray(R.encode_v2(10, [dict(offset=10, timestamp=5, key=b"k", value=b"v", headers=[])]))
    hdr = list(raw[:61])
    hdr[60] = src.byte("record_count_low_byte")
    region = src.bytes("r", nbytes)
    buf = SymBuf(hdr + region, False)
    fmt = _DefaultRecordBatchPy.HEADER_STRUCT.format
    outcome = None
    with patched(DR.DefaultRecordBase, HEADER_STRUCT=shims.Struct(fmt)), \
            patched(DR, bytearray=shims.sym_bytearray, memoryview=shims.sym_memoryview, bytes=shims.sym_bytes):
        batch = _DefaultRecordBatchPy(buf)
        start = batch._pos
        src.check(start == 61, "v2 reader does not start reading records right after the 61-byte header")
        try:
            rec = batch._read_msg()
            outcome = "record"
        except CLEAN as e:
            outcome = "raises " + type(e).__name__
        except (MemoryError, SystemError, RecursionError) as e:
            outcome = "internal " + type(e).__name__
        end = batch._pos
    src.note({"outcome": outcome})
    src.check(not outcome.startswith("internal"), "v2 record parser raised an internal error: " + outcome)
    if outcome == "record":
        lo = start + (0 if not src.twin else nbytes + 1)
        src.check(end > lo, "v2 record parser returned a record without advancing its cursor (the same bytes are read again)")
        # (a declared key/value/header length larger than what is left is not an error for this parser: slices are
        #  clamped, the cursor may end beyond the buffer and the next read fails cleanly -- no read outside the buffer)
        for name, v in (("key", rec.key), ("value", rec.value)):
            if v is not None:
                src.check(len(v) <= nbytes, f"v2 record {name} is longer than the record region it was read from")


# ------------------------------------------------------------------------------------------ U1 legacy walker


def u1_legacy_walker(src, magic, ninner):
    """compressed wrapper whose (decompressed) inner message set has arbitrary length fields: the
    header walk must terminate -- every iteration advances or the input is rejected"""
    inner = b"".join(R.encode_legacy_message(magic, i, 5, None, b"v%d" % i) for i in range(ninner))
    one = len(inner) // ninner
    buf = list(inner)
    lens = []
    for i in range(ninner):
        lb = src.bytes(f"len{i}", 4)
        buf[i * one + 8:i * one + 12] = lb
        lens.append(shims._unpack_int("i", lb))
    payload = SymBuf(buf, False)
    wrapper = R.encode_legacy_message(magic, ninner - 1, 5, None, b"\x1f\x8b-not-really-gzip", attrs=1)
    steps = {"n": 0}

    class _Runaway(Exception):
        pass

    orig = _LegacyRecordBatchPy._read_header

    def counted(self, pos):
        steps["n"] += 1
        if steps["n"] > 4 * (ninner + 2):
            raise _Runaway()
        return orig(self, pos)

    outcome = "ok"
    with _LegacyEnv(), patched(LR, gzip_decode=lambda data: payload), patched(_LegacyRecordBatchPy, _read_header=counted):
        try:
            batch = _LegacyRecordBatchPy(wrapper, magic)
            n = 0
            for r in batch:
                n += 1
                if n > 50:
                    raise _Runaway()
        except _Runaway:
            outcome = "runaway"
        except CLEAN as e:
            outcome = "raises " + type(e).__name__
        except (MemoryError, SystemError, RecursionError) as e:
            outcome = "internal " + type(e).__name__
    src.note({"outcome": outcome, "steps": steps["n"]})
    ok = outcome != "runaway"
    if src.twin:
        ok = not ok
    src.check(ok, "legacy header walk makes no progress on a hostile inner length (decoding does not terminate)")
    src.check(not outcome.startswith("internal"), "legacy reader raised an internal error: " + outcome)


# ------------------------------------------------------------------------------------------ M1 mutation sweep


def _valid_buffers():
    recs = [dict(offset=10, timestamp=100, key=b"k1", value=b"v1", headers=[("h", b"x"), ("n", None)]),
            dict(offset=11, timestamp=99, key=None, value=b"", headers=[])]
    v2 = R.encode_v2(10, recs, producer_id=5, producer_epoch=1, base_sequence=0)
    v2gz = R.encode_v2(10, recs, codec=1)
    lrecs = [dict(offset=3, timestamp=5, key=b"a", value=b"b"), dict(offset=4, timestamp=6, key=None, value=b"c")]
    out = {"v2": v2, "v2gz": v2gz}
    for m in (0, 1):
        out[f"v{m}"] = R.encode_legacy(m, lrecs)
        out[f"v{m}gz"] = R.encode_legacy(m, lrecs, compressed=True)
    out["mixed"] = out["v1"] + v2 + out["v0gz"]
    out["v2snappy"] = R.encode_v2(10, recs, codec=2)
    out["v2lz4"] = R.encode_v2(10, recs, codec=3)
    out["v2zstd"] = R.encode_v2(10, recs, codec=4)
    out["v1snappy"] = R.encode_legacy(1, lrecs, compressed=True, codec=2)
    out["v1lz4"] = R.encode_legacy(1, lrecs, compressed=True, codec=3)
    return out


BUFFERS = _valid_buffers()
BOUNDARY32 = [-(2 ** 31), -13, -12, -2, -1, 0, 1, 2 ** 31 - 1]
BOUNDARY_VARINT = [bytes([0xFF] * 9 + [0x01]), bytes([0xFF] * 10 + [0x01]), bytes([0x80] * 11 + [0x00]),
                   b"\x01", b"\x00", bytes([0xFE, 0xFF, 0xFF, 0xFF, 0x0F]), bytes([0xFF] * 8 + [0x7F]),
                   bytes([0xFE] + [0xFF] * 7 + [0x7F]),        # +(2^62 - 1): huge positive count / length
                   bytes([0x80] * 8 + [0x20]),                 # +2^60
                   bytes([0xFE, 0xFF, 0xFF, 0xFF, 0x7F]),      # +(2^34 - 1)
                   bytes([0x80, 0x80, 0x80, 0x80, 0x10])]      # +2^31


def _decode_all(data):
    """what a consumer does with a fetch response: split, validate, iterate; bounded by counters on the
    harness-visible loops and by a CPU-time budget on loops inside the decoders"""
    try:
        with watchdog(2.0):
            return _decode_all_unguarded(data)
    except Runaway:
        return "runaway"


LAST_CRCS = []


def _decode_all_unguarded(data):
    recs = _MemoryRecordsPy(bytes(data))
    out = []
    nb = 0
    del LAST_CRCS[:]
    while recs.has_next():
        nb += 1
        if nb > 100:
            return "runaway"
        b = recs.next_batch()
        LAST_CRCS.append(bool(b.validate_crc()))
        n = 0
        for r in b:
            n += 1
            out.append((r.offset, r.key, r.value))
            if n > 1000:
                return "runaway"
    return out


def m1_mutations(src, which):
    """truncation at every point, every 32-bit length/count field replaced by boundary values, varint
    fields replaced by hostile varints, single-byte mutations: decoding terminates and fails cleanly"""
    data = bytearray(BUFFERS[which])
    kind = src.choice("mutation", 5)
    if kind == 4:
        # junk behind the batch and a negative Length field (not covered by the checksum) that makes the
        # splitter's slice end at a negative index
        g = [1, 4, 18][src.choice("junk_bytes", 3)]
        data = data + bytes(range(1, 2 * g + 1))
        struct.pack_into(">i", data, 8, -12 - g)
        desc = f"{2 * g} junk bytes appended, Length = {-12 - g}"
    elif kind == 0:
        cut = src.choice("truncate_at", len(data) + 1)
        data = data[:cut]
        desc = f"truncated at {cut}"
    elif kind == 1:
        pos = src.choice("int32_at", max(1, len(data) - 3))
        val = BOUNDARY32[src.choice("int32_value", len(BOUNDARY32))]
        data[pos:pos + 4] = struct.pack(">i", val)
        desc = f"int32 {val} at {pos}"
    elif kind == 2:
        pos = src.choice("varint_at", len(data))
        v = BOUNDARY_VARINT[src.choice("varint_value", len(BOUNDARY_VARINT))]
        data[pos:pos + 1] = v
        desc = f"varint {v.hex()} at {pos}"
        # keep the batch length field consistent so that the splitter hands the batch to the reader
        if which.startswith("v2") and pos >= 61:
            struct.pack_into(">i", data, 8, len(data) - 12)
    else:
        pos = src.choice("byte_at", len(data))
        data[pos] ^= [0x01, 0x80, 0xFF][src.choice("byte_xor", 3)]
        desc = f"byte flip at {pos}"
    outcome = None
    try:
        res = _decode_all(data)
        outcome = "runaway" if res == "runaway" else "ok"
    except (MemoryError, SystemError, RecursionError) as e:
        outcome = "internal " + type(e).__name__
    except Exception as e:  # noqa: BLE001  concrete run: any ordinary exception is a clean failure
        outcome = "raises " + type(e).__name__
    src.note({"buffer": which, "mutation": desc, "outcome": outcome})
    if outcome == "ok" and which.startswith("v2") and bytes(data) != bytes(BUFFERS[which]) and len(data) >= len(BUFFERS[which]):
        # a v2 batch is checksummed from the attributes (byte 21) to its end and the stored CRC sits in bytes 17..20:
        # if any of those bytes changed and decoding went through, the batch must have been reported invalid
        orig = BUFFERS[which]
        changed = [i for i in range(17, len(orig)) if data[i] != orig[i]]
        if changed:
            src.check(not all(LAST_CRCS) or not LAST_CRCS,
                      f"a batch whose content no longer matches its checksum was reported valid ({which}: {desc})", changed_bytes=changed[:6])
    if kind == 4 and which.startswith("v2") and outcome != "runaway":
        # whatever else happens to this buffer, a batch whose Length field is negative is not a valid batch
        src.check(not any(LAST_CRCS), f"a batch with a negative Length field (and junk behind it) passed the checksum validation ({which}: {desc})",
                  verdicts=list(LAST_CRCS))
    src.check(outcome != "runaway", f"decoding does not terminate ({which}: {desc})", buffer=which, mutation=desc)
    ok = not outcome.startswith("internal")
    if src.twin and kind == 0:
        ok = False
    src.check(ok, f"decoder raised an internal error instead of an ordinary exception: {outcome}", buffer=which, mutation=desc)
    _compiled_outcome(src, bytes(data), which, desc, py_crcs=list(LAST_CRCS) if outcome != "runaway" else None)


def _compiled_outcome(src, data, which, desc, py_crcs=None):
    """witness replay against the compiled decoders (watchdog subprocess): refutes, never confirms;
    an out-of-bounds read that happens to return garbage is invisible to it"""
    if not CX.available():
        return
    r = CX.decode(data, timeout=8.0)
    src.check("hang" not in r, f"compiled decoder does not terminate ({which}: {desc})", buffer=which, mutation=desc)
    src.check("crash" not in r, f"compiled decoder crashed the interpreter ({which}: {desc}): exit {r.get('crash')}", buffer=which, mutation=desc)
    if "exc" in r:
        src.check(r["exc"] not in ("SystemError", "MemoryError", "RecursionError", "RuntimeError"),
                  f"compiled decoder raised {r['exc']} instead of an ordinary exception ({which}: {desc})",
                  buffer=which, mutation=desc, detail=r.get("msg"))
    if py_crcs is not None:
        # a batch whose checksum both decoders got to verify must get the same verdict from both
        cc = [bool(b["crc"]) for b in r["batches"]] if "batches" in r else [bool(x) for x in r.get("crcs_before", [])]
        k = min(len(cc), len(py_crcs))
        src.check(cc[:k] == list(py_crcs)[:k], f"the two implementations disagree on the validity of a batch's checksum ({which}: {desc})",
                  pure_python=list(py_crcs), compiled=cc, buffer=which, mutation=desc)


def m2_hostile_inner_lengths(src, magic, ninner):
    """a compressed wrapper with a valid outer checksum whose decompressed inner messages carry
    boundary values in their length fields"""
    inner = bytearray(b"".join(R.encode_legacy_message(magic, i, 5, None, b"v%d" % i) for i in range(ninner)))
    one = len(inner) // ninner
    vals = []
    for i in range(ninner):
        k = src.choice(f"len{i}", len(BOUNDARY32) + 1)
        if k < len(BOUNDARY32):
            struct.pack_into(">i", inner, i * one + 8, BOUNDARY32[k])
            vals.append(BOUNDARY32[k])
        else:
            vals.append("valid")
    cut = src.choice("truncate_inner", 3)
    if cut:
        inner = inner[:len(inner) - [0, 3, 9][cut]]
    data = R.encode_legacy_message(magic, ninner - 1, 5, None, R.gz(bytes(inner)), attrs=1)
    desc = f"inner lengths {vals}, inner set truncated by {[0, 3, 9][cut]}"
    try:
        res = _decode_all(data)
        outcome = "runaway" if res == "runaway" else "ok"
    except (MemoryError, SystemError, RecursionError) as e:
        outcome = "internal " + type(e).__name__
    except Exception as e:  # noqa: BLE001
        outcome = "raises " + type(e).__name__
    src.note({"mutation": desc, "outcome": outcome})
    ok = outcome not in ("runaway",) and not outcome.startswith("internal")
    if src.twin:
        ok = not ok
    src.check(ok, f"pure-Python decoder: {outcome} on a wrapper with hostile inner lengths ({desc})", mutation=desc)
    _compiled_outcome(src, data, f"v{magic} wrapper", desc)


def m3_hostile_block_lengths(src, which):
    """a snappy-compressed batch with valid outer checksums whose xerial stream carries boundary values in a
    block-length field (or is cut): decoding terminates and fails cleanly"""
    recs = [dict(offset=10, timestamp=100, key=b"k1", value=b"v" * 40, headers=[]),
            dict(offset=11, timestamp=101, key=None, value=b"w" * 40, headers=[])]
    payload = b"".join(R.encode_legacy_message(1, i, r["timestamp"], r["key"], r["value"]) for i, r in enumerate(recs)) if which == "v1" \
        else b"".join(R.encode_v2_record(i, i, r["key"], r["value"], []) for i, r in enumerate(recs))
    half = len(payload) // 2
    stream = bytearray(R.xerial_encode(payload, blocksize=half + 1))  # two blocks
    first_len = struct.unpack_from(">i", stream, 16)[0]
    fields = [16, 16 + 4 + first_len]
    k = src.choice("block", 2)
    v = [-(2 ** 31), -8, -5, -4, -3, -2, -1, 0, 1, first_len + 1, 2 ** 31 - 1][src.choice("length", 11)]
    struct.pack_into(">i", stream, fields[k], v)
    cut = [0, 1, 4][src.choice("stream_cut", 3)]
    if cut:
        del stream[len(stream) - cut:]
    if which == "v1":
        data = R.encode_legacy_message(1, 11, 101, None, bytes(stream), attrs=2)
    else:
        hdr_and = struct.pack(">hiqqqhii", 2, 1, 100, 101, -1, -1, -1, 2) + bytes(stream)
        data = struct.pack(">qiibI", 10, 4 + 1 + 4 + len(hdr_and), -1, 2, R.crc32c(hdr_and)) + hdr_and
    desc = f"{which} snappy stream, block {k} length {v}, cut {cut}"
    try:
        res = _decode_all(data)
        outcome = "runaway" if res == "runaway" else "ok"
    except (MemoryError, SystemError, RecursionError) as e:
        outcome = "internal " + type(e).__name__
    except Exception as e:  # noqa: BLE001
        outcome = "raises " + type(e).__name__
    src.note({"mutation": desc, "outcome": outcome})
    ok = outcome != "runaway" and not outcome.startswith("internal")
    if src.twin:
        ok = not ok
    src.check(ok, f"pure-Python decoder: {outcome} on a compressed batch with a hostile block length ({desc})", mutation=desc)
    _compiled_outcome(src, data, which + " snappy", desc)


def prepare(tier):
    return CX.prepare()


def cleanup():
    CX.cleanup()


def harnesses(tier):
    q = tier == "quick"
    hs = []
    for n in ([1, 2, 3, 9, 10, 11] if q else list(range(1, 13))):
        hs.append(Harness(name=f"U5_varint_arbitrary_{n}B", fn=u5_varint_arbitrary, params={"nbytes": n},
                          functions=[decode_varint_py], shape="U", symbolic_vars=f"{n} arbitrary bytes (8-bit vectors)",
                          bounds={"bytes": n}, max_seconds=200))
    for m in (0, 1):
        hs.append(Harness(name=f"U4_legacy_crc_v{m}", fn=u4_legacy_crc, params={"magic": m},
                          functions=[_LegacyRecordBatchPy.validate_crc, _LegacyRecordBatchPy._read_header], shape="U",
                          symbolic_vars="the 4 stored CRC bytes (all 2^32 values)", bounds={"content": "one fixed message"},
                          stubs=["struct/memoryview shims", "zlib.crc32 applied to the (concrete) content"]))
    for n in ([7, 8] if tier == "quick" else [7, 8, 9, 10]):
        hs.append(Harness(name=f"U2_v2_read_msg_{n}B", fn=u2_v2_read_msg, params={"nbytes": n},
                          functions=[_DefaultRecordBatchPy._read_msg, decode_varint_py], shape="U",
                          symbolic_vars="every byte of the record region and the byte in front of it (8-bit vectors)",
                          bounds={"record_region_bytes": n}, stubs=["struct/bytearray/memoryview/bytes shims"],
                          max_seconds=300 if tier == "quick" else 1500, max_paths=2000000, twin_max_paths=3000))
    hs.append(Harness(name="U4_v2_crc", fn=u4_v2_crc, functions=[_DefaultRecordBatchPy.validate_crc], shape="U",
                      symbolic_vars="the 4 stored CRC bytes (all 2^32 values)", bounds={"content": "one fixed batch"},
                      stubs=["struct/bytearray/memoryview shims", "crc32c applied to the (concrete) content"]))
    for m in (0, 1):
        for k in ([1, 2] if q else [1, 2, 3]):
            hs.append(Harness(name=f"U1_legacy_walker_v{m}_{k}inner", fn=u1_legacy_walker, params={"magic": m, "ninner": k},
                              functions=[_LegacyRecordBatchPy._read_all_headers, _LegacyRecordBatchPy.__iter__], shape="U",
                              symbolic_vars="the int32 length field of every inner message (all 2^32 values each)",
                              bounds={"inner_messages": k}, stubs=["gzip_decode returns the symbolic inner message set", "struct/memoryview shims"],
                              max_seconds=300))
    for m in (0, 1):
        hs.append(Harness(name=f"M2_hostile_inner_lengths_v{m}", fn=m2_hostile_inner_lengths, params={"magic": m, "ninner": 2},
                          functions=[_LegacyRecordBatchPy._read_all_headers, _LegacyRecordBatchPy.__iter__], shape="U",
                          symbolic_vars="finite-domain choices: boundary value (-2^31, -13, -12, -2, -1, 0, 1, 2^31-1, valid) in the length field of each inner message; inner set truncated by 0/3/9 bytes",
                          bounds={"inner_messages": 2},
                          note="concrete; both the pure-Python decoder and (witness replay) the compiled decoder built from the current .pyx",
                          max_seconds=300, twin_max_paths=30))
    for which in ("v1", "v2"):
        hs.append(Harness(name=f"M3_hostile_block_lengths_{which}", fn=m3_hostile_block_lengths, params={"which": which},
                          functions=[_LegacyRecordBatchPy._decompress, _DefaultRecordBatchPy._maybe_uncompress], shape="U",
                          symbolic_vars="finite-domain choices: which xerial block-length field, boundary value written into it, stream cut",
                          bounds={"blocks": 2}, note="concrete; pure-Python decoder under a CPU-time watchdog + compiled witness replay",
                          max_seconds=300, twin_max_paths=30))
    for which in (["v2", "v1gz", "mixed", "v2snappy", "v1lz4"] if q else list(BUFFERS)):
        hs.append(Harness(name=f"M1_mutations_{which}", fn=m1_mutations, params={"which": which},
                          functions=[_MemoryRecordsPy._cache_next, _MemoryRecordsPy.next_batch, _DefaultRecordBatchPy._read_msg,
                                     _DefaultRecordBatchPy.__next__, _LegacyRecordBatchPy.__iter__, _LegacyRecordBatchPy._decompress],
                          shape="U",
                          symbolic_vars="finite-domain choices: truncation point (every byte), int32 boundary value at every offset, hostile varint at every offset, single-byte flips",
                          bounds={"buffer_bytes": len(BUFFERS[which])},
                          note="concrete mutation sweep (enumeration), pure-Python decoders", max_seconds=400, twin_max_paths=50))
    return hs
