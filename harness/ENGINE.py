"""ENGINE — self-test of the symx proxies (not a property of aiokafka).

Translator validation in the sense of the guidance ("push the repo's own test inputs through both the
real function and the encoding"): every operator of SymInt / ZInt and the struct shim is compared with
CPython on (a) all pairs of a small signed range with both operands symbolic, (b) a menu of boundary
values up to 2^100 with both operands symbolic over a wide domain and pinned by an assumption, and
(c) the repository's own known-answer vectors (murmur2, CRC-32C, varints) are pushed through the
symbolic encodings of the real functions.  A counterexample here is an engine bug; on concrete replay
it cannot reproduce (replay uses plain ints), so the run ends inconclusive (exit 3) — which is the
right verdict.  Run with ./check ENGINE; the evidence goes to /verif/selftest/, not to evidence/.
"""
import struct as _struct

import z3

from symx import Harness, SymInt, ZInt, s_and, s_not, concretize
from symx.core import SymBool
from symx import shims

import aiokafka.record._crc32c as CRCMOD
from aiokafka.partitioner import murmur2
from aiokafka.record.util import decode_varint_py, encode_varint_py, size_of_varint_py

from .common import patched

M32 = 0xFFFFFFFF

BIN_OPS = [
    ("add", lambda a, b: a + b, None),
    ("sub", lambda a, b: a - b, None),
    ("rsub", lambda a, b: b - a, None),
    ("mul", lambda a, b: a * b, None),
    ("floordiv", lambda a, b: a // b, lambda a, b: b != 0),
    ("mod", lambda a, b: a % b, lambda a, b: b != 0),
    ("and", lambda a, b: a & b, None),
    ("or", lambda a, b: a | b, None),
    ("xor", lambda a, b: a ^ b, None),
    ("lshift", lambda a, b: a << b, lambda a, b: 0 <= b <= 9),
    ("rshift", lambda a, b: a >> b, lambda a, b: 0 <= b <= 9),
    ("lt", lambda a, b: a < b, None),
    ("le", lambda a, b: a <= b, None),
    ("gt", lambda a, b: a > b, None),
    ("ge", lambda a, b: a >= b, None),
    ("eq", lambda a, b: a == b, None),
    ("ne", lambda a, b: a != b, None),
    ("neg_a_plus_b", lambda a, b: -a + b, None),
    ("invert_a_xor_b", lambda a, b: ~a ^ b, None),
    ("abs_a_minus_b", lambda a, b: abs(a - b), None),
    ("mask_mul", lambda a, b: (a * b) & 0xFF, None),
    ("mask_mul32", lambda a, b: ((a * 0x5BD1E995) & M32) ^ (((b * 0x5BD1E995) & M32) >> 24), None),
    ("mod_pow2", lambda a, b: (a + b) % 2 ** 31, None),
    ("zigzag", lambda a, b: ((a << 1) ^ (a >> 63)) + b, None),
    ("and_const", lambda a, b: (a & 0x7F) | ((b & 1) << 7), None),
    ("div_const", lambda a, b: (a // 3, a % 3, b // -5, b % -5), None),
    ("mixed", lambda a, b: ((a << 3) - (b >> 1)) * 7 + (a ^ b) - (a | 5) + (b & -4), None),
]

ZOPS = [
    ("add", lambda a, b: a + b, None),
    ("sub", lambda a, b: a - b, None),
    ("rsub", lambda a, b: 7 - a + b, None),
    ("mulc", lambda a, b: a * 3 - 5 * b, None),
    ("floordivc", lambda a, b: (a // 3, b // 7), None),
    ("modc", lambda a, b: (a % 3, b % 1000, (a + b) % 2147483648), None),
    ("mask", lambda a, b: ((a + b) & 0x7FFFFFFF, a & 0xFF), None),
    ("lt", lambda a, b: a < b, None),
    ("le", lambda a, b: a <= b, None),
    ("eq", lambda a, b: a == b, None),
    ("ne", lambda a, b: a != b, None),
    ("ge", lambda a, b: a >= b, None),
    ("gt", lambda a, b: a > b, None),
    ("neg_abs", lambda a, b: (-a, abs(b), abs(a - b)), None),
]

BOUNDARY = [0, 1, -1, 2, 127, 128, -128, 255, 256, 2 ** 31 - 1, 2 ** 31, -(2 ** 31), 2 ** 32 - 1, 2 ** 32,
            0x5BD1E995, 0x9747B28C, 2 ** 63 - 1, -(2 ** 63), 2 ** 64 - 1, 2 ** 64, -(2 ** 64) - 1,
            0x0123456789ABCDEF, -0x0FEDCBA987654321, 2 ** 100 - 1, -(2 ** 100)]


def _same(src, got, want, what, twin_bump):
    """got: engine value (proxy, python value, or tuple of them); want: CPython's value"""
    if isinstance(want, tuple):
        if not isinstance(got, tuple) or len(got) != len(want):
            src.check(False, f"{what}: result shape differs from CPython")
            return
        for i, (g, w) in enumerate(zip(got, want)):
            _same(src, g, w, f"{what}[{i}]", twin_bump and i == 0)
        return
    if isinstance(want, bool):
        if twin_bump:
            want = not want
        if isinstance(got, SymBool):
            src.check(got if want else s_not(got), f"{what}: boolean result differs from CPython")
        else:
            src.check(isinstance(got, bool) and got == want, f"{what}: boolean result differs from CPython")
        return
    if twin_bump:
        want = want + 1
    src.check(got == want, f"{what}: result differs from CPython")
    if isinstance(got, SymInt):
        # the conservative interval carried by the node must contain the value
        src.check(got.lo <= want - (1 if twin_bump else 0) <= got.hi, f"{what}: value outside the node's interval")


def ops_small(src, kind, lo, hi):
    ops = BIN_OPS if kind == "bv" else ZOPS
    name, f, pre = ops[src.choice("op", len(ops))]
    mk = src.int if kind == "bv" else src.zint
    a = mk("a", lo, hi)
    b = mk("b", lo, hi)
    if pre is not None:
        src.assume(pre(a, b), "operator precondition")
    r = f(a, b)  # both operands symbolic
    av = concretize(a)
    bv = concretize(b)
    _same(src, r, f(av, bv), f"{kind} {name}", src.twin)


def ops_boundary(src, kind):
    ops = BIN_OPS if kind == "bv" else ZOPS
    name, f, pre = ops[src.choice("op", len(ops))]
    A = BOUNDARY[src.choice("ia", len(BOUNDARY))]
    B = BOUNDARY[src.choice("ib", len(BOUNDARY))]
    if name in ("lshift", "rshift"):
        B = [0, 1, 7, 8, 31, 32, 33, 63, 64, 65][src.choice("sh", 10)]
    elif pre is not None and not pre(A, B):
        src.assume(False, "operator precondition")
    if kind == "bv":
        a = src.int("a", -(2 ** 101), 2 ** 101)
        # a symbolic shift amount is forced to a concrete value by the engine: keep its domain small
        b = src.int("b", 0, 127) if name in ("lshift", "rshift") else src.int("b", -(2 ** 101), 2 ** 101)
    else:
        a = src.zint("a")
        b = src.zint("b")
    src.assume(a == A, "pinned")
    src.assume(b == B, "pinned")
    r = f(a, b)
    _same(src, r, f(A, B), f"{kind} {name} at boundary values", src.twin)


FORMATS = [">b", ">B", ">h", ">H", ">i", ">I", ">q", ">Q", ">qiB", ">hhi", ">iqbI", ">IiHb"]
_EDGE = {1: [0, 1, 0x7F, 0x80, 0xFF], 2: [0, 0x7FFF, 0x8000, 0xFFFF, 0x1234],
         4: [0, 0x7FFFFFFF, 0x80000000, 0xFFFFFFFF, 0x12345678],
         8: [0, 2 ** 63 - 1, 2 ** 63, 2 ** 64 - 1, 0x0123456789ABCDEF]}


def struct_shim(src):
    fmt = FORMATS[src.choice("fmt", len(FORMATS))]
    st = shims.Struct(fmt)
    real = _struct.Struct(fmt)
    src.check(st.size == real.size, "struct shim: size differs")
    vals, syms = [], []
    for i, ch in enumerate(fmt[1:]):
        nb, signed = shims._FMT[ch]
        raw = _EDGE[nb][src.choice(f"e{i}", len(_EDGE[nb]))]
        v = raw - (1 << (8 * nb)) if signed and raw >> (8 * nb - 1) else raw
        lo, hi = (-(1 << (8 * nb - 1)), (1 << (8 * nb - 1)) - 1) if signed else (0, (1 << (8 * nb)) - 1)
        s = src.int(f"v{i}", lo, hi)
        src.assume(s == v, "pinned")
        vals.append(v)
        syms.append(s)
    want = real.pack(*vals)
    got = st.pack(*syms)
    gl = list(got.b) if isinstance(got, shims.SymBuf) else list(got)
    src.check(len(gl) == len(want), "struct shim: packed length differs")
    for i, (g, w) in enumerate(zip(gl, want)):
        src.check(g == (w ^ 1 if src.twin and i == 0 else w), f"struct shim {fmt}: packed byte {i} differs from CPython")
    back = st.unpack_from(shims.SymBuf([0] + gl + [0]), 1)
    for i, (g, w) in enumerate(zip(back, vals)):
        src.check(g == w, f"struct shim {fmt}: unpack(pack(v)) field {i} differs")
    # out-of-range values must raise like CPython
    nb, signed = shims._FMT[fmt[1]]
    hi = (1 << (8 * nb - 1)) - 1 if signed else (1 << (8 * nb)) - 1
    over = src.int("over", hi - 1, hi + 1)
    try:
        shims.Struct(">" + fmt[1]).pack(over)
        raised = False
    except shims.error:
        raised = True
    ov = concretize(over)
    src.check(raised == (ov > hi), "struct shim: range error differs from CPython")


# ---- repository vectors through the symbolic encodings of the real functions

MURMUR_VECTORS = [(b"", 681), (b"a", 524), (b"ab", 434), (b"abc", 107), (b"123456789", 566), (b"\x00 ", 742)]

VARINT_VECTORS = [(b"\x00", 0), (b"\x01", -1), (b"\x02", 1), (b"\x7e", 63), (b"\x7f", -64), (b"\x80\x01", 64),
                  (b"\x81\x01", -65), (b"\xfe\x7f", 8191), (b"\xff\x7f", -8192), (b"\x80\x80\x01", 8192),
                  (b"\xfe\xff\xff\x7f", 134217727), (b"\xff\xff\xff\x7f", -134217728),
                  (b"\x80\x80\x80\x80\x01", 134217728), (b"\x81\x80\x80\x80\x80\x01", -17179869185),
                  (b"\xfe\xff\xff\xff\xff\xff\xff\x7f", 36028797018963967),
                  (b"\xff\xff\xff\xff\xff\xff\xff\xff\x7f", -4611686018427387904),
                  (b"\x80\x80\x80\x80\x80\x80\x80\x80\x80\x01", 4611686018427387904),
                  (b"\x81\x80\x80\x80\x80\x80\x80\x80\x80\x01", -4611686018427387905)]

CRC_VECTORS = [(b"", 0x00000000), (b"a", 0xC1D04330), (b"123456789", 0xE3069283)]


def _pinned_bytes(src, name, data):
    out = src.bytes(name, len(data))
    for s, v in zip(out, data):
        src.assume(s == v, "pinned")
    return out


def repo_vectors(src):
    which = src.choice("which", 3)
    if which == 0:
        key, part = MURMUR_VECTORS[src.choice("i", len(MURMUR_VECTORS))]
        h = murmur2(_pinned_bytes(src, "k", key))
        got = (h & 0x7FFFFFFF) % 1000
        src.check(got == (part + 1 if src.twin else part),
                  "murmur2 through the symbolic encoding disagrees with the repository's Java-compatibility vector")
    elif which == 1:
        enc, val = VARINT_VECTORS[src.choice("i", len(VARINT_VECTORS))]
        v = src.int("v", -(2 ** 63), 2 ** 63 - 1)
        src.assume(v == val, "pinned")
        out = []
        encode_varint_py(v, out.append)
        src.check(len(out) == len(enc), "varint vector: encoded length differs")
        for i, (g, w) in enumerate(zip(out, enc)):
            src.check(g == (w ^ 1 if src.twin and i == 0 else w), f"varint vector: encoded byte {i} differs")
        got, pos = decode_varint_py(shims.SymBuf(_pinned_bytes(src, "e", enc)), 0)
        src.check(s_and(got == val, pos == len(enc)), "varint vector: decoded value/position differs")
        src.check(size_of_varint_py(v) == len(enc), "varint vector: size_of_varint differs")
    else:
        data, crc = CRC_VECTORS[src.choice("i", len(CRC_VECTORS))]
        table = shims.SymTable(CRCMOD.CRC_TABLE, 8, 32)
        with patched(CRCMOD, array=shims.SymArrayModule, CRC_TABLE=table):
            got = CRCMOD.crc(shims.SymBuf(_pinned_bytes(src, "d", data)))
        src.check(got == (crc ^ 1 if src.twin else crc), "CRC-32C through the symbolic encoding disagrees with the known answer")


def harnesses(tier):
    small = (-9, 9) if tier == "quick" else (-17, 17)
    hs = []
    for kind in ("bv", "lia"):
        hs.append(Harness(
            name=f"ops_small_{kind}", fn=ops_small, params={"kind": kind, "lo": small[0], "hi": small[1]},
            functions=[SymInt if kind == "bv" else ZInt],
            bounds={"operands": list(small), "operators": len(BIN_OPS if kind == "bv" else ZOPS)},
            symbolic_vars="a, b symbolic over the whole small range while the operator is applied; then forced to each value",
            shape="K", xcheck=2, xcheck_every=8, max_paths=400000, max_seconds=600, twin_max_paths=4000))
        hs.append(Harness(
            name=f"ops_boundary_{kind}", fn=ops_boundary, params={"kind": kind},
            functions=[SymInt if kind == "bv" else ZInt],
            bounds={"boundary_values": len(BOUNDARY)},
            symbolic_vars="a, b symbolic over [-2^101, 2^101] (bv) / unbounded (lia), pinned by assumption to every pair of boundary values",
            shape="K", xcheck=2, xcheck_every=8, max_paths=400000, max_seconds=600, twin_max_paths=4000))
    hs.append(Harness(name="struct_shim", fn=struct_shim, functions=[shims.Struct],
                      bounds={"formats": FORMATS}, shape="K", xcheck=2, xcheck_every=8, max_paths=400000, max_seconds=600,
                      symbolic_vars="field values symbolic over the field's range, pinned to edge values", twin_max_paths=4000))
    hs.append(Harness(name="repo_vectors", fn=repo_vectors,
                      functions=[murmur2, encode_varint_py, decode_varint_py, size_of_varint_py, CRCMOD.crc_update],
                      bounds={"vectors": len(MURMUR_VECTORS) + len(VARINT_VECTORS) + len(CRC_VECTORS)},
                      symbolic_vars="inputs symbolic, pinned to the repository's known-answer vectors",
                      shape="K", max_paths=1000, max_seconds=300, twin_max_paths=200))
    return hs
