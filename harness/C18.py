"""C18 — SCRAM login proves the password and authenticates the server."""
import base64
import hashlib
import hmac

from symx import Harness
from symx.core import SymBool
from symx import shims

import aiokafka.conn as CONN
from aiokafka.conn import ScramAuthenticator

from .common import in_loop, patched

HASHES = {"SCRAM-SHA-256": ("sha256", hashlib.sha256), "SCRAM-SHA-512": ("sha512", hashlib.sha512)}


# ------------------------------------------------------------------------------------------
# independent RFC 5802 server (stdlib hashes only)


class ServerReject(Exception):
    pass


def rfc_unescape(q):
    out = []
    i = 0
    while i < len(q):
        ch = q[i]
        if ch == ",":
            raise ServerReject("unescaped comma in saslname")
        if ch == "=":
            code = q[i + 1:i + 3]
            if code == "2C":
                out.append(",")
            elif code == "3D":
                out.append("=")
            else:
                raise ServerReject("invalid escape in saslname")
            i += 3
            continue
        out.append(ch)
        i += 1
    return "".join(out)


class RefServer:
    def __init__(self, mech, users, salt, iterations, snonce="SRVNONCE"):
        self.hname, self.H = HASHES[mech]
        self.users, self.salt, self.iterations, self.snonce = users, salt, iterations, snonce

    def first(self, client_first: str):
        if not client_first.startswith("n,,"):
            raise ServerReject("gs2 header")
        bare = client_first[3:]
        self.client_first_bare = bare
        # saslname may not contain a raw ',' so a plain split is what a server does
        fields = bare.split(",")
        if len(fields) != 2 or not fields[0].startswith("n=") or not fields[1].startswith("r="):
            raise ServerReject("malformed client-first-message-bare: " + bare)
        self.username = rfc_unescape(fields[0][2:])
        self.cnonce = fields[1][2:]
        if self.username not in self.users:
            raise ServerReject("unknown user " + self.username)
        self.nonce = self.cnonce + self.snonce
        self.server_first = f"r={self.nonce},s={base64.b64encode(self.salt).decode()},i={self.iterations}"
        return self.server_first

    def keys(self, password):
        salted = hashlib.pbkdf2_hmac(self.hname, password.encode("utf-8"), self.salt, self.iterations)
        ck = hmac.new(salted, b"Client Key", self.H).digest()
        sk = hmac.new(salted, b"Server Key", self.H).digest()
        return ck, self.H(ck).digest(), sk

    def final(self, client_final: str, server_first_as_sent=None):
        parts = client_final.split(",")
        if len(parts) != 3 or parts[0] != "c=biws" or not parts[1].startswith("r=") or not parts[2].startswith("p="):
            raise ServerReject("malformed client-final")
        if parts[1][2:] != self.nonce:
            raise ServerReject("nonce mismatch")
        without_proof = ",".join(parts[:2])
        auth = ",".join([self.client_first_bare, server_first_as_sent or self.server_first, without_proof]).encode("utf-8")
        ck, stored, sk = self.keys(self.users[self.username])
        sig = hmac.new(stored, auth, self.H).digest()
        proof = base64.b64decode(parts[2][2:])
        if len(proof) != len(sig):
            raise ServerReject("proof length")
        cand = bytes(a ^ b for a, b in zip(proof, sig))
        if self.H(cand).digest() != stored:
            raise ServerReject("client proof does not verify (wrong password)")
        self.server_signature = hmac.new(sk, auth, self.H).digest()
        return "v=" + base64.b64encode(self.server_signature).decode()


# salts: 1 / 16 / 64 bytes, and salts whose base64 text starts with the attribute letters of the server-first
# message ("s", "r", "i": bytes 0xB0.., 0xAC.., 0x88..) or repeats them ("ssss", "iiii"), with and without '=' padding
SALTS = [b"s", bytes(range(16)), bytes(range(64)), bytes([0xB2, 0xCB, 0x2C, 0xB2, 0xCB, 0x2C, 0x01]), bytes([0xAE, 0xBA, 0xEB, 0x10, 0x20]),
         bytes([0x8A, 0x28, 0xA2, 0x8A, 0x28, 0xA2]), bytes([0xB2, 0xCB])]
USERNAMES = ["user", "a,b", "a=b", "=,=", ",", "=2C", "üser,=", "x" * 40, "a=3Db,"]
PASSWORDS = ["pw", "pä55=,"]
TAMPERS = ["none", "nonce_not_prefixed", "nonce_cnonce_inside", "nonce_truncated", "nonce_unrelated", "sig_bitflip_first", "sig_bitflip_last",
           "sig_truncated", "sig_empty", "sig_extended", "sig_other_password", "sig_other_salt", "sig_other_iterations", "error_reply"]


class _DetUuid:
    """stands in for the uuid module inside aiokafka.conn: uuid4() values come from a counter"""

    def __init__(self, start):
        self.n = start
        self.calls = 0

    def uuid4(self):
        import uuid as _uuid
        self.calls += 1
        v = _uuid.UUID(int=(0x9E3779B97F4A7C15F39CC0605CEDC834 * (self.n + self.calls)) % (1 << 128), version=4)
        return v


_KEYS = {}


def expected_proof(mech, user, pw, salt, iterations, cnonce, snonce="SRVNONCE"):
    """ClientProof per RFC 5802 for the messages an RFC-conforming client would send (independent of the code)"""
    hname, H = HASHES[mech]
    k = (mech, pw, salt, iterations)
    if k not in _KEYS:
        salted = hashlib.pbkdf2_hmac(hname, pw.encode("utf-8"), salt, iterations)
        ck = hmac.new(salted, b"Client Key", H).digest()
        _KEYS[k] = (ck, H(ck).digest())
    ck, stored = _KEYS[k]
    quoted = user.replace("=", "=3D").replace(",", "=2C")
    bare = f"n={quoted},r={cnonce}"
    sf = f"r={cnonce}{snonce},s={base64.b64encode(salt).decode()},i={iterations}"
    auth = f"{bare},{sf},c=biws,r={cnonce}{snonce}".encode("utf-8")
    sig = hmac.new(stored, auth, H).digest()
    return bytes(a ^ b for a, b in zip(ck, sig))


PROOF_SHAPES = ["any", "leading_zero_byte", "trailing_zero_byte", "two_leading_zero_bits_only"]


def find_nonce_start(mech, user, pw, salt, iterations, shape):
    """counter start for _DetUuid such that the honest proof has the wanted shape (boundary of byte-string handling)"""
    if shape == "any":
        return 0
    for start in range(0, 20000):
        d = _DetUuid(start)
        cn = str(d.uuid4()).replace("-", "")
        p = expected_proof(mech, user, pw, salt, iterations, cn)
        if shape == "leading_zero_byte" and p[0] == 0:
            return start
        if shape == "trailing_zero_byte" and p[-1] == 0:
            return start
        if shape == "two_leading_zero_bits_only" and 0 < p[0] < 0x40:
            return start
    return 0


def w1_exchange(src):
    mech = list(HASHES)[src.choice("mechanism", 2)]
    salt = SALTS[src.choice("salt", len(SALTS))]
    iterations = [1, 4096, 20000][src.choice("iterations", 3)]
    user = USERNAMES[src.choice("username", len(USERNAMES))]
    pw = PASSWORDS[src.choice("password", len(PASSWORDS))]
    tamper = TAMPERS[src.choice("tamper", len(TAMPERS))]
    shape = PROOF_SHAPES[src.choice("proof_shape", len(PROOF_SHAPES))] if tamper == "none" else "any"
    srv = RefServer(mech, {user: pw}, salt, iterations)
    out = {}
    det = _DetUuid(find_nonce_start(mech, user, pw, salt, iterations, shape))

    def run():
        with patched(CONN, uuid=det):
            a = ScramAuthenticator(loop=None, sasl_plain_password=pw, sasl_plain_username=user, sasl_mechanism=mech)
        out["fresh_nonce"] = det.calls == 1
        gen = a._authenticator
        client_first, _ = next(gen)
        out["client_first"] = client_first.decode("utf-8")
        try:
            sf = srv.first(out["client_first"])
        except ServerReject as e:
            out["server_reject"] = "client-first: " + str(e)
            return
        out["decoded_user"] = srv.username
        sent_sf = sf
        if tamper == "nonce_not_prefixed":
            sent_sf = sf.replace("r=" + srv.nonce, "r=" + "SRV" + srv.cnonce)
        elif tamper == "nonce_cnonce_inside":
            sent_sf = sf.replace("r=" + srv.nonce, "r=" + "x" + srv.cnonce + "SRV")
        elif tamper == "nonce_truncated":
            sent_sf = sf.replace("r=" + srv.nonce, "r=" + srv.cnonce[:-1])
        elif tamper == "nonce_unrelated":
            sent_sf = sf.replace("r=" + srv.nonce, "r=" + "Z" * len(srv.nonce))
        try:
            client_final, _ = gen.send(sent_sf.encode("utf-8"))
        except (ValueError, KeyError) as e:
            out["client_abort"] = "server-first: " + type(e).__name__
            return
        out["client_final"] = client_final.decode("utf-8")
        if tamper.startswith("nonce_"):
            return
        try:
            sfin = srv.final(out["client_final"])
            out["server_accepts"] = True
        except ServerReject as e:
            out["server_reject"] = "client-final: " + str(e)
            return
        sig = srv.server_signature
        bad = None
        if tamper == "sig_bitflip_first":
            bad = bytes([sig[0] ^ 0x80]) + sig[1:]
        elif tamper == "sig_bitflip_last":
            bad = sig[:-1] + bytes([sig[-1] ^ 1])
        elif tamper == "sig_truncated":
            bad = sig[:-1]
        elif tamper == "sig_empty":
            bad = b""
        elif tamper == "sig_extended":
            bad = sig + b"\x00"
        elif tamper in ("sig_other_password", "sig_other_salt", "sig_other_iterations"):
            other = RefServer(mech, {user: pw + "x" if tamper == "sig_other_password" else pw},
                              salt + b"!" if tamper == "sig_other_salt" else salt,
                              iterations + 1 if tamper == "sig_other_iterations" else iterations)
            other.client_first_bare, other.server_first, other.username, other.nonce = srv.client_first_bare, srv.server_first, user, srv.nonce
            ck, stored, sk = other.keys(other.users[user])
            auth = ",".join([srv.client_first_bare, srv.server_first, ",".join(out["client_final"].split(",")[:2])]).encode()
            bad = hmac.new(sk, auth, other.H).digest()
        if tamper == "error_reply":
            sfin = "e=invalid-proof"
        elif bad is not None:
            sfin = "v=" + base64.b64encode(bad).decode()
        try:
            gen.send(sfin.encode("utf-8"))
            out["client_completed"] = False  # the generator should have finished
        except StopIteration:
            out["client_completed"] = True
        except (ValueError, KeyError) as e:
            out["client_abort"] = "server-final: " + type(e).__name__

    run()
    info = dict(mechanism=mech, salt_len=len(salt), iterations=iterations, username=user, tamper=tamper, proof_shape=shape,
                observed={k: v for k, v in out.items() if k not in ("client_first", "client_final")})
    src.note(info)
    cf = out.get("client_first", "")
    src.check(cf.startswith("n,,n=") and ",r=" in cf, "client-first is not 'n,,n=<saslname>,r=<nonce>'", message=cf, **info)
    if "server_reject" in out:
        src.check(False, "a server that knows the password rejects the client's message: " + out["server_reject"], **info)
        return
    src.check(out.get("decoded_user") == user, "the server decodes a different username than the one configured",
              decoded=out.get("decoded_user"), **info)
    if tamper == "none":
        ok = out.get("server_accepts") and out.get("client_completed")
        if src.twin:
            ok = not ok
        src.check(ok, "honest exchange did not complete", **info)
    elif tamper.startswith("nonce_"):
        src.check("client_abort" in out, "client did not abort although the server nonce does not extend its own", **info)
    else:
        src.check("client_abort" in out and not out.get("client_completed"),
                  "client completed authentication although the server's final message is not the expected signature", **info)


# ------------------------------------------------------------------------------------------
# U1: server signature comparison on symbolic bytes


def u1_server_signature(src, mech):
    """process_server_final_message with the decoded signature as symbolic bytes of any length 0..n+1:
    accepted iff byte-for-byte equal (same length) to the signature the client derived"""
    n = HASHES[mech][1]().digest_size
    k = src.choice("received_length", 5)
    length = [0, 1, n - 1, n, n + 1][k]
    recv = src.bytes("sig", length)
    expected = bytes((7 * i + 3) % 256 for i in range(n))
    a = ScramAuthenticator(loop=None, sasl_plain_password="pw", sasl_plain_username="u", sasl_mechanism=mech)
    a._server_signature = expected

    class _B64:
        @staticmethod
        def b64decode(x):
            return shims.SymBuf(recv, False)

        b64encode = staticmethod(base64.b64encode)

    accepted = True
    with patched(CONN, base64=_B64):
        try:
            a.process_server_final_message("v=AAAA")
        except ValueError:
            accepted = False
    if accepted:
        ok = length == n
        if ok:
            from symx import s_and
            ok = s_and(*[r == e for r, e in zip(recv, expected)])
        if src.twin:
            ok = False
        src.check(ok, "a server signature that differs from the derived one was accepted", received_length=length, expected_length=n)
    else:
        # rejected: must not be the right signature
        if length == n:
            from symx import s_and, s_not
            src.check(s_not(s_and(*[r == e for r, e in zip(recv, expected)])), "the correct server signature was rejected")


# ------------------------------------------------------------------------------------------
# W2: two logins in one process; an impostor replays what the honest server said in the first


def w2_replay(src):
    mech = list(HASHES)[src.choice("mechanism", 2)]
    user, pw = USERNAMES[src.choice("username", 3)], PASSWORDS[src.choice("password", len(PASSWORDS))]
    salt, iterations = bytes(range(16)), [1, 4096][src.choice("iterations", 2)]
    logins_before = src.choice("honest_logins_before_the_recorded_one", 2)
    det = _DetUuid(7)
    out = {}

    def login(srv_first=None, srv_final=None):
        with patched(CONN, uuid=det):
            a = ScramAuthenticator(loop=None, sasl_plain_password=pw, sasl_plain_username=user, sasl_mechanism=mech)
        gen = a._authenticator
        cf = next(gen)[0].decode("utf-8")
        srv = RefServer(mech, {user: pw}, salt, iterations)
        sf = srv.first(cf) if srv_first is None else srv_first
        try:
            cfin = gen.send(sf.encode("utf-8"))[0].decode("utf-8")
        except (ValueError, KeyError):
            return dict(cnonce=cf.split(",r=")[-1], aborted="server-first")
        sfin = srv.final(cfin) if srv_final is None else srv_final
        try:
            gen.send(sfin.encode("utf-8"))
        except StopIteration:
            return dict(cnonce=cf.split(",r=")[-1], completed=True, server_first=sf, server_final=sfin)
        except (ValueError, KeyError):
            return dict(cnonce=cf.split(",r=")[-1], aborted="server-final")
        return dict(cnonce=cf.split(",r=")[-1])

    for _ in range(logins_before):
        login()
    rec = login()
    out["recorded"] = rec
    src.check(rec.get("completed"), "honest login did not complete", observed=str(rec))
    if not rec.get("completed"):
        return
    # the impostor knows no password: it can only replay the recorded server messages
    victim = login(srv_first=rec["server_first"], srv_final=rec["server_final"])
    ok = victim["cnonce"] != rec["cnonce"]
    if src.twin:
        ok = not ok
    src.check(ok, "two logins in one process used the same client nonce", nonce=victim["cnonce"])
    src.check(not victim.get("completed"),
              "client completed authentication with an impostor that only replayed a recorded exchange", observed=str(victim))


# ------------------------------------------------------------------------------------------
# W3: the exchange as the connection drives it (AIOKafkaConnection._do_sasl_handshake): whatever the
# broker answers to the client-final message, the login completes only after the server signature verified


FINALS = ["honest", "empty_token", "none_token", "wrong_signature", "truncated_signature", "error_attribute", "garbage"]


def w3_connection_handshake(src):
    import asyncio
    import types
    from aiokafka.conn import AIOKafkaConnection
    import aiokafka.errors as E
    from env import vloop
    mech = list(HASHES)[src.choice("mechanism", 2)]
    hv = src.choice("sasl_handshake_version", 2)   # 0: raw tokens after the handshake, 1: SaslAuthenticate requests
    final = FINALS[src.choice("server_final", len(FINALS))]
    user, pw = "user", "pw"
    srv = RefServer(mech, {user: pw}, bytes(range(16)), 4096)
    out = {"steps": []}

    async def main(loop):
        conn = AIOKafkaConnection("fake", 9092, request_timeout_ms=1000, security_protocol="SASL_PLAINTEXT", sasl_mechanism=mech,
                                  sasl_plain_username=user, sasl_plain_password=pw)

        def answer(token):
            msg = bytes(token).decode("utf-8")
            if not out["steps"]:
                out["steps"].append("first")
                return srv.first(msg).encode("utf-8")
            out["steps"].append("final")
            good = srv.final(msg)
            if final == "honest":
                return good.encode("utf-8")
            if final == "empty_token":
                return b""
            if final == "none_token":
                return None
            if final == "wrong_signature":
                sig = bytearray(srv.server_signature)
                sig[0] ^= 1
                return ("v=" + base64.b64encode(bytes(sig)).decode()).encode()
            if final == "truncated_signature":
                return ("v=" + base64.b64encode(srv.server_signature[:-1]).decode()).encode()
            if final == "error_attribute":
                return b"e=invalid-proof"
            return b"x"

        async def fake_send(request, expect_response=True):
            name = type(request).__name__
            if name.startswith("SaslHandShake"):
                return types.SimpleNamespace(error_code=0, enabled_mechanisms=[mech], API_VERSION=hv)
            if name.startswith("SaslAuthenticate"):
                tok = request.prepare({36: (0, 1)}).sasl_auth_bytes  # the bytes the request would carry on the wire
                return types.SimpleNamespace(error_code=0, error_message=None, sasl_auth_bytes=answer(tok), session_lifetime_ms=0)
            raise AssertionError("unexpected request " + name)

        async def fake_token(payload, expect_response):
            return answer(payload)

        conn.send = fake_send
        conn._send_sasl_token = fake_token
        conn.close = lambda *a, **k: out.setdefault("closed", True)
        try:
            await asyncio.wait_for(conn._do_sasl_handshake(), 30)
            out["completed"] = True
        except asyncio.TimeoutError:
            out["error"] = "hangs"
        except ServerReject as e:
            out["server_reject"] = str(e)
        except (E.KafkaError, ValueError, KeyError, TypeError, AttributeError, UnicodeDecodeError, IndexError) as e:
            out["error"] = type(e).__name__

    vloop.run(main, max_vtime=100)
    info = dict(mechanism=mech, handshake_version=hv, server_final=final, observed={k: v for k, v in out.items()})
    src.note(info)
    src.check("server_reject" not in out, "a server that knows the password rejects the client's message: " + str(out.get("server_reject")), **info)
    if final == "honest":
        ok = bool(out.get("completed"))
        if src.twin:
            ok = not ok
        src.check(ok, "honest SCRAM login through the connection did not complete: " + str(out.get("error")), **info)
    else:
        src.check(not out.get("completed"), "the connection completed the SASL login although the server's final message did not carry the expected signature", **info)


# ------------------------------------------------------------------------------------------
# U2: the proof is the byte-wise XOR, whatever the bytes are


def u2_xor_bytes(src):
    n = [1, 2, 32, 64][src.choice("length", 4)]
    pat = src.choice("pattern", 6)
    a = bytes((37 * i + 11) % 256 for i in range(n))
    if pat == 0:
        b = bytes(a)                                  # all zero result
    elif pat == 1:
        b = bytes([a[0]]) + bytes(x ^ 0x5A for x in a[1:])   # leading zero byte
    elif pat == 2:
        b = bytes(x ^ 0x5A for x in a[:-1]) + bytes([a[-1]])  # trailing zero byte
    elif pat == 3:
        b = bytes([a[0] ^ 1]) + bytes(a[1:])          # 0x01 then zeros
    elif pat == 4:
        b = bytes(x ^ 0xFF for x in a)                # all ones
    else:
        b = bytes((91 * i + 5) % 256 for i in range(n))
    got = ScramAuthenticator._xor_bytes(a, b)
    want = bytes(x ^ y for x, y in zip(a, b))
    if src.twin:
        want = want[:-1] + bytes([want[-1] ^ 1])
    src.check(isinstance(got, (bytes, bytearray)) and bytes(got) == want,
              "_xor_bytes is not the byte-wise XOR of its operands (length or content differs)",
              got=bytes(got).hex() if isinstance(got, (bytes, bytearray)) else repr(got), want=want.hex())


def harnesses(tier):
    hs = [Harness(name="W1_exchange_vs_rfc5802_server", fn=w1_exchange,
                  functions=[ScramAuthenticator.first_message, ScramAuthenticator.process_server_first_message,
                             ScramAuthenticator.final_message, ScramAuthenticator.process_server_final_message,
                             ScramAuthenticator.authenticator_scram],
                  shape="S",
                  symbolic_vars="finite-domain choices: mechanism, salt (1/16/64 bytes), iterations (1/4096/20000), username menu (',' '=' non-ASCII, escape look-alikes), password, tampering of one server field",
                  bounds={"usernames": USERNAMES, "tampers": TAMPERS},
                  note="concrete witness runs against an independent RFC 5802 server (hash functions cannot be encoded): enumeration, not a solver verdict",
                  max_seconds=600, twin_max_paths=50)]
    hs.append(Harness(name="W2_replay_across_logins", fn=w2_replay,
                      functions=[ScramAuthenticator.__init__, ScramAuthenticator.process_server_first_message,
                                 ScramAuthenticator.process_server_final_message],
                      shape="S", symbolic_vars="finite-domain choices: mechanism, username, password, iterations, number of earlier logins",
                      bounds={"logins": "2..3 in one process"},
                      stubs=["uuid inside aiokafka.conn replaced by a counter-based generator (fresh value per call)"],
                      note="concrete witness runs (hash functions cannot be encoded)", twin_max_paths=50))
    hs.append(Harness(name="W3_connection_handshake", fn=w3_connection_handshake,
                      functions=[CONN.AIOKafkaConnection._do_sasl_handshake, CONN.BaseSaslAuthenticator._step,
                                 ScramAuthenticator.authenticator_scram],
                      shape="S", symbolic_vars="finite-domain choices: mechanism, SaslHandshake v0 (raw tokens) or v1 (SaslAuthenticate), what the broker answers to the client-final message",
                      bounds={"server_final": FINALS},
                      stubs=["AIOKafkaConnection.send / _send_sasl_token answered by the reference server; virtual-time loop (executor inline)"],
                      note="concrete witness runs (hash functions cannot be encoded)", twin_max_paths=50))
    hs.append(Harness(name="U2_xor_bytes_boundaries", fn=u2_xor_bytes, functions=[ScramAuthenticator._xor_bytes], shape="U",
                      symbolic_vars="finite-domain choices: length (1, 2, 32, 64), byte patterns giving zero / leading-zero / trailing-zero / all-ones results",
                      bounds={"lengths": [1, 2, 32, 64]}, twin_max_paths=50))
    for mech in HASHES:
        hs.append(Harness(name=f"U1_server_signature_{mech}", fn=u1_server_signature, params={"mech": mech},
                          functions=[ScramAuthenticator.process_server_final_message, ScramAuthenticator._xor_bytes],
                          shape="U",
                          symbolic_vars="every byte of the received signature (8-bit vectors); its length from {0, 1, n-1, n, n+1}",
                          bounds={"signature_bytes": "all values", "lengths": "0,1,n-1,n,n+1"},
                          stubs=["base64.b64decode returns the symbolic bytes"], twin_max_paths=20))
    return hs
