"""C07 — transactions are atomic and follow the transactional protocol order."""
import asyncio

from symx import Harness

import aiokafka.errors as E
from aiokafka.producer.message_accumulator import MessageAccumulator
from aiokafka.producer.producer import AIOKafkaProducer
from aiokafka.producer.sender import (AddOffsetsToTxnHandler, AddPartitionsToTxnHandler, BaseHandler, EndTxnHandler,
                                      InitPIDHandler, Sender, TxnOffsetCommitHandler)
from aiokafka.structs import OffsetAndMetadata, TopicPartition

from env import simkafka, vloop
from . import txnsim


async def _transaction(p, i, cfg, log):
    """one transaction: begin, two concurrent send tasks, optional offsets, commit or abort"""
    rec = {"i": i, "records": [], "offsets": None, "want": cfg["end"], "outcome": None, "error": None, "futs": []}
    log.append(rec)
    batch = None
    if cfg.get("prebuilt_batch"):
        # batch API: the builder is created while no transaction is open and submitted inside one
        batch = p.create_batch()
        key = b"t%d-batch" % i
        batch.append(key=key, value=b"v", timestamp=None)
    await p.begin_transaction()

    async def sender(part, n):
        for k in range(n):
            key = b"t%d-p%d-%d" % (i, part, k)
            fut = await p.send("t", b"v", key=key, partition=part)
            (rec["late_records"] if rec.get("ending") else rec["records"]).append((part, key))
            rec["futs"].append(fut)
            if cfg.get("send_gap"):
                await asyncio.sleep(cfg["send_gap"])

    if cfg.get("race_end_after") is not None:
        # another task keeps sending (and parks on a full batch of a muted partition) while this one ends the transaction
        rec["late_records"] = []
        st = asyncio.ensure_future(sender(0, 4))
        for _ in range(400):
            if len(rec["records"]) >= cfg["race_end_after"] or st.done():
                break
            await asyncio.sleep(0.001)
        rec["ending"] = True
        try:
            if cfg["end"] == "commit":
                await p.commit_transaction()
                rec["outcome"] = "committed"
            else:
                await p.abort_transaction()
                rec["outcome"] = "aborted"
        finally:
            done, _ = await asyncio.wait([st], timeout=30)
            if not done:
                st.cancel()
                rec["late_send"] = "hangs"
            elif st.exception() is not None:
                rec["late_send"] = "refused: " + type(st.exception()).__name__
            else:
                rec["late_send"] = "accepted"
        return

    _plain_sender = sender

    async def sender(part, n):  # noqa: F811
        try:
            await _plain_sender(part, n)
        except E.KafkaTimeoutError:
            # send() refused the record after waiting request_timeout for room in the accumulator (back-pressure while
            # a request of the transaction is being retried): the application gives the transaction up
            rec["send_refused"] = True

    if cfg.get("stagger"):
        # the second task starts a little later (a new partition appears while AddPartitionsToTxn for the
        # first one may still be unanswered)
        async def late():
            await asyncio.sleep(cfg["stagger"])
            await sender(1, cfg["n1"])
        await asyncio.gather(sender(0, cfg["n0"]), late())
    else:
        await asyncio.gather(sender(0, cfg["n0"]), sender(1, cfg["n1"]))
    if batch is not None and not rec.get("send_refused"):
        try:
            bf = await p.send_batch(batch, "t", partition=0)
            rec["records"].append((0, b"t%d-batch" % i))
            rec["futs"].append(bf)
        except E.KafkaTimeoutError:
            rec["send_refused"] = True
    if rec.get("send_refused"):
        rec["want"] = "abort"
        await p.abort_transaction()
        rec["outcome"] = "aborted"
        return
    if cfg["offsets"]:
        off = 100 + i
        await p.send_offsets_to_transaction({TopicPartition("in", 0): OffsetAndMetadata(off, "")}, "grp")
        rec["offsets"] = off
    if cfg["end"] == "commit":
        await p.commit_transaction()
        rec["outcome"] = "committed"
    else:
        await p.abort_transaction()
        rec["outcome"] = "aborted"


def s1_transactions(src, ntxn, fault_kinds, max_fault_requests, max_faults, kill, timing=False, race=False):
    cfgs = []
    for i in range(ntxn):
        cfgs.append({"end": ["commit", "abort"][src.choice(f"end{i}", 2)], "n0": src.choice(f"n0_{i}", 3),
                     "n1": src.choice(f"n1_{i}", 2), "offsets": src.flag(f"offsets{i}")})
    for c in cfgs:
        c["send_gap"] = [0.0, 0.004][src.choice(f"send_gap{cfgs.index(c)}", 2)] if timing else 0.0
        c["stagger"] = [0.0, 0.006][src.choice(f"stagger{cfgs.index(c)}", 2)] if timing else 0.0
        c["prebuilt_batch"] = src.flag(f"prebuilt_batch{cfgs.index(c)}") if timing else False
    if race:
        for c in cfgs:
            c["race_end_after"] = 1 + src.choice(f"end_called_after_accepted_sends{cfgs.index(c)}", 3)
    marker_delay = [0.0, 0.03][src.choice("marker_delay", 2)]
    kill_at = src.choice("kill_at", 5) if kill else None  # event index at which the producer is killed and replaced
    cluster = simkafka.Cluster(nodes=(0, 1), topics={"t": 2, "in": 1})
    cluster.marker_delay = marker_delay
    cluster.blackhole = set()
    cluster.add_partitions_delay = [0.0, 0.02][src.choice("add_partitions_delay", 2)] if timing else 0.0
    if race:
        cluster.produce_delay = {0: [0.0, 0.03][src.choice("leader_of_p0_replies_after", 2)]}
    if "produce_reject" in fault_kinds:
        # one leader answers late: its reply is still outstanding when the other leader's verdict arrives
        cluster.produce_delay = {[0, 1][src.choice("slow_leader", 2)]: 0.05}
    faults = txnsim.TxnFaults(src, fault_kinds, max_fault_requests, max_faults)
    cluster.fault_fn = faults
    txns = []
    res = {}

    async def main(loop):
        with simkafka.installed(cluster):
            p = await txnsim.open_producer(cluster, client_id="P1", **({"max_batch_size": 90} if race else {}))
            faults.enabled = True
            killed = False
            try:
                for i, cfg in enumerate(cfgs):
                    if kill_at is not None and not killed:
                        # kill while transaction i is at a chosen stage, then a new instance takes over
                        task = asyncio.ensure_future(_transaction(p, i, cfg, txns))
                        stage_delay = [0.0, 0.003, 0.006, 0.012, 0.05][kill_at]
                        await asyncio.wait([task], timeout=stage_delay)
                        if not task.done():
                            cluster.blackhole.add("P1")
                            for c in list(cluster.conns):
                                if c.client_id == "P1" and c.connected():
                                    c.close(reason="killed")
                            task.cancel()
                            killed = True
                            txns[-1]["outcome"] = "killed"
                            res["killed_in"] = i
                            p2 = await txnsim.open_producer(cluster, client_id="P2")
                            p_old, p = p, p2
                            continue
                        if task.exception() is not None:
                            raise task.exception()
                        continue
                    try:
                        await asyncio.wait_for(_transaction(p, i, cfg, txns), timeout=60)
                    except asyncio.TimeoutError:
                        txns[-1]["error"] = "hangs (no result within 60 s)"
                        break
                    except (E.KafkaError, E.IllegalOperation, AssertionError) as e:
                        txns[-1]["error"] = repr(e)
                        txns[-1]["error_obj"] = e
                        # the application reacts the documented way: abort and go on (unless fatal)
                        try:
                            await asyncio.wait_for(p.abort_transaction(), timeout=60)
                            txns[-1]["outcome"] = "aborted after error"
                        except (E.KafkaError, E.IllegalOperation, AssertionError, asyncio.TimeoutError) as e2:
                            txns[-1]["outcome"] = "failed"
                            txns[-1]["abort_error"] = repr(e2)
                            break
            finally:
                faults.enabled = False
            # quiet period: markers written, then the read-committed view is final
            await asyncio.sleep(1.0)
            res["ended_at"] = loop.time()
            try:
                await asyncio.wait_for(p.stop(), timeout=30)
            except (asyncio.TimeoutError, asyncio.CancelledError, Exception) as e:  # noqa: BLE001
                res["stop"] = repr(e)

    try:
        vloop.run(main, max_vtime=900)
    except vloop.Deadlock as e:
        res["deadlock"] = str(e)
    info = dict(txns=[{k: v for k, v in t.items() if k in ("i", "want", "outcome", "error", "offsets")} for t in txns],
                faults=faults.log, killed_in=res.get("killed_in"), marker_delay=marker_delay)
    src.note(info)
    src.check("deadlock" not in res, "transactional run did not finish in bounded virtual time: " + str(res.get("deadlock")), **info)
    if "deadlock" in res:
        return
    retriable_only = all(c == "retriable" for _, _, _, c in faults.log)
    views = {p: txnsim.committed_view(cluster, ("t", p)) for p in (0, 1)}
    grp = cluster.group("grp").offsets.get(("in", 0), (None, ""))[0]
    last_committed_offsets = None
    for t in txns:
        vis = [(part, key) for (part, key) in t["records"] if (key, b"v") in views[part]]
        if t["outcome"] == "committed":
            ok = len(vis) == len(t["records"])
            if src.twin:
                ok = not ok
            src.check(ok, f"transaction {t['i']}: commit_transaction() returned but a read-committed reader does not see all of its records",
                      visible=len(vis), sent=len(t["records"]), **info)
            if t["offsets"] is not None:
                last_committed_offsets = t["offsets"]
        elif t["outcome"] == "killed":
            # the producer died before commit_transaction()/abort_transaction() returned: the coordinator
            # may already have accepted EndTxn, so the outcome is either -- but it is atomic
            src.check(len(vis) in (0, len(t["records"])),
                      f"transaction {t['i']} (producer killed mid-way): a read-committed reader sees {len(vis)} of its {len(t['records'])} records",
                      **info)
            if t["want"] == "abort":
                src.check(not vis, f"transaction {t['i']} (killed while aborting): its records became visible", **info)
        elif t["outcome"] in ("aborted", "aborted after error", "failed"):
            src.check(not vis, f"transaction {t['i']} ({t['outcome']}): a read-committed reader sees {len(vis)} of its records",
                      visible=[k for _, k in vis], **info)
            if t["offsets"] is not None:
                src.check(grp != t["offsets"], f"transaction {t['i']} ({t['outcome']}): its consumer offsets were committed", **info)
        if retriable_only and t["error"] is not None and t["outcome"] != "killed":
            src.check(False, f"transaction {t['i']} did not end the way the application requested although only retriable faults occurred: {t['error']}", **info)
        if retriable_only and t["outcome"] not in ("killed",) and t["error"] is None:
            src.check(t["outcome"] == ("committed" if t["want"] == "commit" else "aborted"),
                      f"transaction {t['i']} ended as {t['outcome']}, requested {t['want']}", **info)
    if last_committed_offsets is not None:
        src.check(grp is not None, "offsets of a committed transaction are not visible in the group", **info)
        # the group's offset is that of the last transaction with offsets whose commit_transaction() returned
        # (unless a later transaction carrying offsets was cut short by a kill: either outcome is possible then)
        after = False
        ambiguous = False
        for t in txns:
            if t["offsets"] == last_committed_offsets and t["outcome"] == "committed":
                after = True
            elif after and t["offsets"] is not None and t["outcome"] == "killed":
                ambiguous = True
        if not ambiguous:
            src.check(grp == last_committed_offsets,
                      f"the group's committed offset is {grp}, not the {last_committed_offsets} of the last transaction whose commit_transaction() returned", **info)
    src.check(not cluster.problems, "transactional protocol order violated: " + "; ".join(cluster.problems[:2]), **info)
    # open transactions left behind (LSO stuck) by a producer that is still alive
    if not res.get("killed_in") and all(t["outcome"] in ("committed", "aborted", "aborted after error") for t in txns):
        for tp, log in cluster.logs.items():
            src.check(not log.open_txn, f"{tp}: a transaction was left open (last stable offset stuck) after every transaction ended", **info)


def harnesses(tier):
    q = tier == "quick"
    if q:
        confs = [(1, ("retriable",), 8, 1, False, False), (2, ("abortable",), 6, 1, False, False), (2, (), 0, 0, True, False),
                 (2, (), 0, 0, False, True), (2, ("retriable",), 12, 1, False, False), (1, ("produce_reject",), 8, 1, False, False),
                 (2, (), 0, 0, False, "race")]
    else:
        confs = [(2, ("retriable",), 12, 2, False, False), (2, ("abortable", "fatal"), 8, 1, False, False),
                 (2, ("retriable",), 6, 1, True, False), (2, ("retriable",), 6, 1, False, True), (2, (), 0, 0, False, "race")]
    hs = []
    for ntxn, kinds, mfr, mf, kill, timing in confs:
        race = timing == "race"
        timing = timing is True
        hs.append(Harness(
            name=f"S1_transactions_{ntxn}txn_{'_'.join(kinds) or 'nofault'}_{mfr}req_{mf}faults{'_kill' if kill else ''}{'_timing' if timing else ''}{'_end_races_send' if race else ''}", fn=s1_transactions,
            params={"ntxn": ntxn, "fault_kinds": kinds, "max_fault_requests": mfr, "max_faults": mf, "kill": kill, "timing": timing, "race": race},
            functions=[Sender._sender_routine, Sender._maybe_do_transactional_request, Sender._do_txn_commit,
                       Sender._find_coordinator, Sender._maybe_wait_for_pid, BaseHandler.do, InitPIDHandler.handle_response,
                       AddPartitionsToTxnHandler.handle_response, AddOffsetsToTxnHandler.handle_response,
                       TxnOffsetCommitHandler.handle_response, EndTxnHandler.handle_response,
                       MessageAccumulator.flush_for_commit, MessageAccumulator.create_builder, AIOKafkaProducer.send],
            shape="S",
            symbolic_vars="choices: commit/abort, records per partition, offsets or not per transaction, marker write delay, fault kind at each of the first transactional/produce/find-coordinator requests, kill point",
            bounds={"transactions": ntxn, "fault_kinds": list(kinds), "faultable_requests": mfr, "max_faults": mf, "kill_and_replace": kill},
            stubs=["SimConn + simulated transaction coordinator and partition leaders (DESIGN Appendix C)", "virtual-time loop"],
            assumptions=["the partition leader does not verify that a partition was added to the transaction (pre-KIP-890); the arrival log does"],
            max_seconds=500 if q else 3000, max_paths=3000000, twin_max_paths=500))
    return hs
