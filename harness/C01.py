"""C01 — per-partition produce order; no loss, no duplication under retries."""
from symx import Harness

from aiokafka.producer.transaction_manager import TransactionManager
from aiokafka.structs import TopicPartition

from .common import in_loop

MAXSEQ = 2 ** 31 - 1


def k1_sequence_wrap(src):
    """increment_sequence_number vs Kafka's DefaultRecordBatch.incrementSequence:
    next = (seq + inc) mod 2^31 (0..2^31-1 wrap-around rule)."""
    seq = src.zint("seq", 0, MAXSEQ)
    inc = src.zint("inc", 1, MAXSEQ)
    tp = TopicPartition("t", 0)

    def run():
        tm = TransactionManager(None, 1000)
        tm._sequence_numbers[tp] = seq
        tm.increment_sequence_number(tp, inc)
        return tm.sequence_number(tp)

    got = in_loop(run)
    bad = 1 if src.twin else 0
    if seq + inc <= MAXSEQ:
        src.check(got == seq + inc + bad, "sequence increment without wrap: next != seq + inc")
    else:
        src.check(got == seq + inc - 2 ** 31 + bad,
                  "sequence wrap: next != (seq + inc) mod 2^31 (Kafka's 0..2^31-1 wrap-around rule)")
        src.check((got >= 0) & (got <= MAXSEQ), "sequence wrap: sequence outside 0..2^31-1 after wrap")


def harnesses(tier):
    hs = [Harness(
        name="K1_sequence_wrap", fn=k1_sequence_wrap,
        functions=[TransactionManager.increment_sequence_number, TransactionManager.sequence_number],
        shape="K", symbolic_vars="seq in [0,2^31-1], inc in [1,2^31-1] (z3 Int)",
        bounds={"seq": "0..2^31-1 (all)", "inc": "1..2^31-1 (all)"},
        note="oracle: org.apache.kafka.common.record.DefaultRecordBatch.incrementSequence")]
    return hs


# ------------------------------------------------------------------------------------------
# S1: the real AIOKafkaProducer on the virtual loop against the simulated cluster

from . import prodsim  # noqa: E402


def produce_config(src, allow_acks0=False):
    idem = src.flag("idempotent")
    cfg = {"idempotent": idem}
    if not idem:
        cfg["acks"] = [1, -1, 0][src.choice("acks", 3 if allow_acks0 else 2)]
    cfg["linger_ms"] = [0, 5][src.choice("linger", 2)]
    cfg["max_batch_size"] = [16384, 90][src.choice("batch_size", 2)]  # 90: one record per batch
    return cfg


def check_c01(src, res, cfg):
    c = res["cluster"]
    src.note({"cfg": cfg, "faults": res["plan"].log,
              "requests": [(a["req"]["api"], a["fault"] if not isinstance(a["fault"], tuple) else list(a["fault"])) for a in c.arrivals][:14]})
    src.check("deadlock" not in res, "producer run did not finish in bounded virtual time: " + str(res.get("deadlock")))
    if "sends" not in res:
        return
    sends = res["sends"]
    accepted = [s for s in sends if s["fut"] is not None]
    idem = cfg["idempotent"]
    for p in (0, 1):
        tp = ("t", p)
        log = prodsim.log_records(c, tp)
        acc = {(s["key"], s["value"]): s for s in accepted if s["p"] == p}
        # (1) only accepted records are appended
        for off, k, v, ts, b in log:
            src.check((k, v) in acc, f"partition {p}: appended record was never accepted by send()", key=k)
        # (2) per task, first occurrences keep the task's send order
        first = {}
        for off, k, v, ts, b in log:
            first.setdefault((k, v), off)
        for j in {s["task"] for s in accepted}:
            seq = [first[(s["key"], s["value"])] for s in sorted((x for x in accepted if x["task"] == j and x["p"] == p), key=lambda x: x["i"])
                   if (s["key"], s["value"]) in first]
            ok = all(a < b for a, b in zip(seq, seq[1:]))
            if src.twin and len(seq) > 1:
                ok = not ok
            src.check(ok, f"partition {p}: records of task {j} appended out of send order", offsets=seq, faults=res["plan"].log, cfg=cfg)
        # (3)/(4) duplication
        counts = {}
        for off, k, v, ts, b in log:
            counts[(k, v)] = counts.get((k, v), 0) + 1
        if idem:
            for kv, n in counts.items():
                src.check(n == 1, f"partition {p}: record appended {n} times with idempotence enabled", key=kv[0], faults=res["plan"].log)
            for s in accepted:
                if s["p"] == p and s["fut"].done() and not s["fut"].cancelled() and s["fut"].exception() is None:
                    src.check(counts.get((s["key"], s["value"]), 0) == 1,
                              f"partition {p}: acknowledged record is not in the log exactly once", key=s["key"], faults=res["plan"].log)
        else:
            firstbatch = {}
            for off, k, v, ts, b in log:
                sig = tuple((r[1], r[2]) for r in b.records)
                if (k, v) in firstbatch:
                    src.check(firstbatch[(k, v)] == sig,
                              f"partition {p}: duplicate is not a whole re-sent batch", key=k, faults=res["plan"].log)
                else:
                    firstbatch[(k, v)] = sig
    # (5) never two batches of one partition in flight (only retriable faults are injected)
    for tp, n in c.max_inflight_per_partition.items():
        src.check(n <= 1, f"{n} produce requests for partition {tp} in flight at once", faults=res["plan"].log, cfg=cfg)
    # (6) sequences presented to the brokers
    src.check(not c.seq_errors, "a sequence gap / reused sequence was presented to a broker (OUT_OF_ORDER_SEQUENCE)",
              detail=str(c.seq_errors[:2]), faults=res["plan"].log, cfg=cfg)
    src.check(not c.problems, "broker-side protocol problem: " + "; ".join(c.problems[:2]), faults=res["plan"].log)


def s1_composed(src, tasks_spec, max_requests, max_faults, start_seq=0):
    cfg = produce_config(src)
    if start_seq and cfg["idempotent"]:
        cfg["start_seq"] = start_seq
    res = prodsim.run_producer(src, cfg, tasks_spec, prodsim.RETRIABLE_MENU, max_requests, max_faults)
    check_c01(src, res, cfg)


def _s1(tier):
    from aiokafka.producer.sender import Sender, SendProduceReqHandler
    from aiokafka.producer.message_accumulator import MessageAccumulator
    from aiokafka.producer.producer import AIOKafkaProducer
    q = tier == "quick"
    confs = [([[0, 1, 0], [0, 0]], 5, 1)] if q else [([[0, 1, 0], [0, 0], [1, 0]], 6, 2), ([[0, 0, 0], [0, 1]], 5, 3)]
    hs = []
    for spec, mr, mf in confs:
        hs.append(Harness(
            name=f"S1_composed_{len(spec)}tasks_{mr}req_{mf}faults", fn=s1_composed,
            params={"tasks_spec": spec, "max_requests": mr, "max_faults": mf},
            functions=[Sender._sender_routine, Sender._send_produce_req, SendProduceReqHandler.do,
                       SendProduceReqHandler.handle_response, SendProduceReqHandler._can_retry,
                       MessageAccumulator.drain_by_nodes, MessageAccumulator._pop_batch, MessageAccumulator.reenqueue,
                       MessageAccumulator.add_message, AIOKafkaProducer.send],
            shape="S",
            symbolic_vars="choices: idempotence, acks, linger, batch size (1 record/batch or many), fault kind at each of the first produce/metadata requests",
            bounds={"sender_tasks": len(spec), "records": sum(len(x) for x in spec), "partitions": 2, "brokers": 2,
                    "faultable_requests": mr, "max_faults": mf, "fault_menu": [str(m) for m in prodsim.RETRIABLE_MENU]},
            stubs=["AIOKafkaConnection -> SimConn (request-level cluster model, env/simkafka.py)", "virtual-time event loop", "random in aiokafka.client is deterministic"],
            assumptions=["broker behaviour as modelled in env/simkafka.py (sequence rule: DESIGN Appendix B1)"],
            max_seconds=300 if q else 1500, max_paths=3000000, twin_max_paths=2000))
    return hs


_k_harnesses = harnesses


def harnesses(tier):  # noqa: F811
    return _k_harnesses(tier) + _s1(tier)
