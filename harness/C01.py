"""C01 — per-partition produce order; no loss, no duplication under retries."""
from symx import Harness

from aiokafka.producer.transaction_manager import TransactionManager
from aiokafka.structs import TopicPartition

from .common import in_loop

MAXSEQ = 2 ** 31 - 1


def k1_sequence_wrap(src):
    """increment_sequence_number vs Kafka's DefaultRecordBatch.incrementSequence:
    next = (seq + inc) mod 2^31 (0..2^31-1 wrap-around rule)."""
    seq = src.zint("seq", 0, MAXSEQ)
    inc = src.zint("inc", 1, MAXSEQ)
    tp = TopicPartition("t", 0)

    def run():
        tm = TransactionManager(None, 1000)
        tm._sequence_numbers[tp] = seq
        tm.increment_sequence_number(tp, inc)
        return tm.sequence_number(tp)

    got = in_loop(run)
    bad = 1 if src.twin else 0
    if seq + inc <= MAXSEQ:
        src.check(got == seq + inc + bad, "sequence increment without wrap: next != seq + inc")
    else:
        src.check(got == seq + inc - 2 ** 31 + bad,
                  "sequence wrap: next != (seq + inc) mod 2^31 (Kafka's 0..2^31-1 wrap-around rule)")
        src.check((got >= 0) & (got <= MAXSEQ), "sequence wrap: sequence outside 0..2^31-1 after wrap")


def harnesses(tier):
    hs = [Harness(
        name="K1_sequence_wrap", fn=k1_sequence_wrap,
        functions=[TransactionManager.increment_sequence_number, TransactionManager.sequence_number],
        shape="K", symbolic_vars="seq in [0,2^31-1], inc in [1,2^31-1] (z3 Int)",
        bounds={"seq": "0..2^31-1 (all)", "inc": "1..2^31-1 (all)"},
        note="oracle: org.apache.kafka.common.record.DefaultRecordBatch.incrementSequence")]
    return hs


# ------------------------------------------------------------------------------------------
# S1: the real AIOKafkaProducer on the virtual loop against the simulated cluster

from . import prodsim  # noqa: E402


def produce_config(src, allow_acks0=False, batch_api=False):
    idem = src.flag("idempotent")
    cfg = {"idempotent": idem}
    if not idem:
        cfg["acks"] = [1, -1, 0][src.choice("acks", 3 if allow_acks0 else 2)]
    cfg["linger_ms"] = [0, 5][src.choice("linger", 2)]
    cfg["max_batch_size"] = [16384, 90][src.choice("batch_size", 2)]  # 90: one record per batch
    if idem and src.flag("broker_answers_replayed_batches_with_DUPLICATE_SEQUENCE_NUMBER"):
        cfg["dup46"] = True
    if batch_api and src.flag("task0_uses_create_batch_send_batch"):
        cfg["send_batch_tasks"] = (0,)
    return cfg


def check_c01(src, res, cfg):
    c = res["cluster"]
    src.note({"cfg": cfg, "faults": res["plan"].log,
              "requests": [(a["req"]["api"], a["fault"] if not isinstance(a["fault"], tuple) else list(a["fault"])) for a in c.arrivals][:14]})
    src.check("deadlock" not in res, "producer run did not finish in bounded virtual time: " + str(res.get("deadlock")))
    if "sends" not in res:
        return
    sends = res["sends"]
    accepted = [s for s in sends if s["fut"] is not None]
    idem = cfg["idempotent"]
    for p in (0, 1):
        tp = ("t", p)
        log = prodsim.log_records(c, tp)
        acc = {(s["key"], s["value"]): s for s in accepted if s["p"] == p}
        # (1) only accepted records are appended
        for off, k, v, ts, b in log:
            src.check((k, v) in acc, f"partition {p}: appended record was never accepted by send()", key=k)
        # (2) per task, first occurrences keep the task's send order
        first = {}
        for off, k, v, ts, b in log:
            first.setdefault((k, v), off)
        for j in {s["task"] for s in accepted}:
            seq = [first[(s["key"], s["value"])] for s in sorted((x for x in accepted if x["task"] == j and x["p"] == p), key=lambda x: x["i"])
                   if (s["key"], s["value"]) in first]
            ok = all(a < b for a, b in zip(seq, seq[1:]))
            if src.twin and len(seq) > 1:
                ok = not ok
            src.check(ok, f"partition {p}: records of task {j} appended out of send order", offsets=seq, faults=res["plan"].log, cfg=cfg)
        # (3)/(4) duplication
        counts = {}
        for off, k, v, ts, b in log:
            counts[(k, v)] = counts.get((k, v), 0) + 1
        if idem:
            for kv, n in counts.items():
                src.check(n == 1, f"partition {p}: record appended {n} times with idempotence enabled", key=kv[0], faults=res["plan"].log)
            for s in accepted:
                if s["p"] == p and s["fut"].done() and not s["fut"].cancelled() and s["fut"].exception() is None:
                    src.check(counts.get((s["key"], s["value"]), 0) == 1,
                              f"partition {p}: acknowledged record is not in the log exactly once", key=s["key"], faults=res["plan"].log)
        else:
            firstbatch = {}
            for off, k, v, ts, b in log:
                sig = tuple((r[1], r[2]) for r in b.records)
                if (k, v) in firstbatch:
                    src.check(firstbatch[(k, v)] == sig,
                              f"partition {p}: duplicate is not a whole re-sent batch", key=k, faults=res["plan"].log)
                else:
                    firstbatch[(k, v)] = sig
    # (5) never two batches of one partition in flight (only retriable faults are injected)
    for tp, n in c.max_inflight_per_partition.items():
        src.check(n <= 1, f"{n} produce requests for partition {tp} in flight at once", faults=res["plan"].log, cfg=cfg)
    # (6) sequences presented to the brokers
    src.check(not c.seq_errors, "a sequence gap / reused sequence was presented to a broker (OUT_OF_ORDER_SEQUENCE)",
              detail=str(c.seq_errors[:2]), faults=res["plan"].log, cfg=cfg)
    src.check(not c.problems, "broker-side protocol problem: " + "; ".join(c.problems[:2]), faults=res["plan"].log)


def s1_composed(src, tasks_spec, max_requests, max_faults, start_seq=0):
    cfg = produce_config(src, batch_api=True)
    if start_seq and cfg["idempotent"]:
        cfg["start_seq"] = start_seq
    res = prodsim.run_producer(src, cfg, tasks_spec, prodsim.RETRIABLE_MENU, max_requests, max_faults)
    check_c01(src, res, cfg)


def _s1(tier):
    from aiokafka.producer.sender import Sender, SendProduceReqHandler
    from aiokafka.producer.message_accumulator import MessageAccumulator
    from aiokafka.producer.producer import AIOKafkaProducer
    q = tier == "quick"
    confs = [([[0, 1, 0], [0, 0]], 5, 1)] if q else [([[0, 1, 0], [0, 0], [1, 0]], 6, 2), ([[0, 0, 0], [0, 1]], 5, 3)]
    hs = []
    for spec, mr, mf in confs:
        hs.append(Harness(
            name=f"S1_composed_{len(spec)}tasks_{mr}req_{mf}faults", fn=s1_composed,
            params={"tasks_spec": spec, "max_requests": mr, "max_faults": mf},
            functions=[Sender._sender_routine, Sender._send_produce_req, SendProduceReqHandler.do,
                       SendProduceReqHandler.handle_response, SendProduceReqHandler._can_retry,
                       MessageAccumulator.drain_by_nodes, MessageAccumulator._pop_batch, MessageAccumulator.reenqueue,
                       MessageAccumulator.add_message, AIOKafkaProducer.send],
            shape="S",
            symbolic_vars="choices: idempotence, acks, linger, batch size (1 record/batch or many), fault kind at each of the first produce/metadata requests",
            bounds={"sender_tasks": len(spec), "records": sum(len(x) for x in spec), "partitions": 2, "brokers": 2,
                    "faultable_requests": mr, "max_faults": mf, "fault_menu": [str(m) for m in prodsim.RETRIABLE_MENU]},
            stubs=["AIOKafkaConnection -> SimConn (request-level cluster model, env/simkafka.py)", "virtual-time event loop", "random in aiokafka.client is deterministic"],
            assumptions=["broker behaviour as modelled in env/simkafka.py (sequence rule: DESIGN Appendix B1)"],
            max_seconds=300 if q else 1500, max_paths=3000000, twin_max_paths=2000))
    return hs


# ------------------------------------------------------------------------------------------
# S2: transactional producer, slow leader, leadership moving while a batch is in flight, a second partition
# waiting for AddPartitionsToTxn.  The in-flight rule (one batch per partition) must hold whatever else the
# sender has to mute or un-mute at that moment.


def s2_txn_leader_move(src):
    import asyncio
    from env import simkafka, vloop
    from . import txnsim

    cluster = simkafka.Cluster(nodes=(0, 1), topics={"t": 2})
    slow_node0 = [0.0, 0.6][src.choice("reply_delay_of_node0", 2)]
    slow_add = [0.0, 0.6][src.choice("add_partitions_delay", 2)]
    max_age = [300000, 150][src.choice("metadata_max_age_ms", 2)]
    move = src.choice("leader_of_p0_moves", 3)  # 0 never, 1 while the first batch is in flight, 2 before anything is sent
    gap1 = [0.0, 0.05, 0.3][src.choice("pause_before_second_sends", 3)]
    order2 = src.choice("second_sends_order", 2)
    res = {}

    async def main(loop):
        with simkafka.installed(cluster):
            prod = await txnsim.open_producer(cluster, metadata_max_age_ms=max_age)
            try:
                await prod.begin_transaction()
                if move == 2:
                    cluster.leader[("t", 0)] = 1
                futs = [await prod.send("t", b"a1", key=b"k", partition=0)]
                cluster.produce_delay = {0: slow_node0}
                cluster.add_partitions_delay = slow_add
                # let the first batch reach its leader
                for _ in range(200):
                    if any(a["req"]["api"] == "Produce" for a in cluster.arrivals):
                        break
                    await asyncio.sleep(0.01)
                if move == 1:
                    cluster.leader[("t", 0)] = 1
                if gap1:
                    await asyncio.sleep(gap1)
                second = [(0, b"a2"), (1, b"b1")]
                if order2:
                    second.reverse()
                for p, v in second:
                    futs.append(await prod.send("t", v, key=b"k", partition=p))
                await asyncio.sleep(0.4)
                futs.append(await prod.send("t", b"a3", key=b"k", partition=0))
                await prod.commit_transaction()
                res["committed"] = True
                res["futs"] = futs
            except Exception as e:  # noqa: BLE001
                res["error"] = repr(e)
            finally:
                try:
                    await asyncio.wait_for(prod.stop(), 20)
                except Exception as e:  # noqa: BLE001
                    res["stop_error"] = repr(e)

    try:
        vloop.run(main, max_vtime=120.0)
    except vloop.Deadlock as e:
        res["deadlock"] = str(e)
    c = cluster
    info = dict(reply_delay_node0=slow_node0, add_partitions_delay=slow_add, metadata_max_age_ms=max_age, move=move,
                requests=[(a["node"], a["req"]["api"], round(a["time"], 3)) for a in c.arrivals][:30])
    src.note(info)
    src.check("deadlock" not in res, "transactional producer run did not finish in bounded virtual time: " + str(res.get("deadlock")), **info)
    ok = all(n <= 1 for n in c.max_inflight_per_partition.values())
    if src.twin:
        ok = not ok
    src.check(ok, "two produce requests for one partition in flight at once (transactional producer, leadership moved)",
              inflight=dict((str(k), v) for k, v in c.max_inflight_per_partition.items()), **info)
    src.check(not c.seq_errors, "a sequence gap / reused sequence was presented to a broker (OUT_OF_ORDER_SEQUENCE)",
              detail=str(c.seq_errors[:2]), **info)
    src.check("error" not in res, "send/commit failed although no fault was injected: " + str(res.get("error")), **info)
    if res.get("committed"):
        log0 = [r[2] for r in c.logs[("t", 0)].visible_records(1)]
        src.check(log0 == [b"a1", b"a2", b"a3"], "partition 0 does not hold the records in send order after commit", log=[x.decode() for x in log0], **info)


# ------------------------------------------------------------------------------------------
# U1: one drain step of the accumulator from an arbitrary valid state (symbolic clock, creation times,
# record counts and sequence counters)


class _StubBuilder:
    def __init__(self, count, closed):
        self._count, self._closed = count, closed
        self.state = None

    def record_count(self):
        return self._count

    def closed(self):
        return self._closed

    def close(self):
        self._closed = True

    def _set_producer_state(self, pid, epoch, seq):
        self.state = (pid, epoch, seq)


class _Cluster:
    def __init__(self, leaders):
        self.leaders = leaders

    def leader_for_partition(self, tp):
        return self.leaders.get(tp)


class _LoopStub:
    """create_future() from the real loop; call_later() only recorded (its delay is symbolic)"""

    def __init__(self, loop):
        self._loop = loop
        self.timers = []

    def create_future(self):
        return self._loop.create_future()

    def call_later(self, delay, cb, *a):
        self.timers.append(delay)

        class _H:
            def cancel(self_inner):
                pass
        return _H()


class _Clock:
    def __init__(self, now):
        self.now = now

    def monotonic(self):
        return self.now


def u1_drain_step(src, nparts, idempotent):
    import asyncio
    import collections
    import aiokafka.producer.message_accumulator as MA
    from aiokafka.errors import LeaderNotAvailableError, NotLeaderForPartitionError
    from .common import patched
    TTL, LINGER = 30, [0, 5][src.choice("linger", 2)]
    now = src.zint("now", 0)
    tps = [TopicPartition("t", p) for p in range(nparts)]
    ign = src.choice("ignore_nodes", 4)
    ignore = {n for n in (0, 1) if ign >> n & 1}
    plan = {}
    for tp in tps:
        q = src.choice(f"queue_len_p{tp.partition}", 3)
        plan[tp] = dict(
            q=q,
            leader=[0, 1, None, -1][src.choice(f"leader_p{tp.partition}", 4)],
            muted=src.flag(f"muted_p{tp.partition}") if q else False,
            head_is_retry=src.flag(f"head_was_sent_before_p{tp.partition}") if q else False,
            closed=src.flag(f"head_builder_closed_p{tp.partition}") if q else False,
        )
    out = {}

    def run():
        loop = asyncio.get_event_loop()
        tm = TransactionManager(None, 60000) if idempotent else None
        if tm is not None:
            tm.set_pid_and_epoch(77, 3)
        with patched(MA, time=_Clock(now)):
            ma = MA.MessageAccumulator(_Cluster({tp: plan[tp]["leader"] for tp in tps}), 16384, 0, TTL, txn_manager=tm, loop=_LoopStub(loop),
                                       linger_ms=LINGER * 1000)
            seq0, batches, counts = {}, {}, {}
            for tp in tps:
                pl = plan[tp]
                if tm is not None:
                    seq0[tp] = src.zint(f"seq0_p{tp.partition}", 0, 2 ** 31 - 1 - 3000000)
                    tm._sequence_numbers[tp] = seq0[tp]
                batches[tp] = []
                for k in range(pl["q"]):
                    c = src.zint(f"count_p{tp.partition}_{k}", 1, 1000000)
                    b = MA.MessageBatch(tp, _StubBuilder(c, pl["closed"] if k == 0 else False), TTL, LINGER)
                    ct = src.zint(f"ctime_p{tp.partition}_{k}", 0)
                    src.assume(ct <= now, "created in the past")
                    if k:
                        src.assume(batches[tp][-1]._ctime <= ct, "queue in creation order")
                    b._ctime = ct
                    batches[tp].append(b)
                    counts[b] = c
                    ma._batches[tp].append(b)
                if pl["q"] and pl["head_is_retry"]:
                    # a head that was sent once and came back: produced by the real pop / re-enqueue
                    h = ma._pop_batch(tp)
                    ma.reenqueue(h)
            seq_before = {tp: (tm.sequence_number(tp) if tm is not None else None) for tp in tps}
            state_before = {b: b._builder.state for tp in tps for b in batches[tp]}
            muted = {tp for tp in tps if plan[tp]["muted"]}
            nodes, unknown = ma.drain_by_nodes(ignore_nodes=ignore, muted_partitions=muted)
            out.update(ma=ma, tm=tm, nodes=nodes, unknown=unknown, batches=batches, counts=counts, seq_before=seq_before,
                       state_before=state_before)

    in_loop(run)
    ma, tm, nodes, batches = out["ma"], out["tm"], out["nodes"], out["batches"]
    drained = {tp: b for n, d in nodes.items() for tp, b in d.items()}
    any_unknown = False
    for tp in tps:
        pl = plan[tp]
        if not pl["q"]:
            src.check(tp not in drained, f"{tp}: a batch was drained from an empty queue")
            continue
        head = batches[tp][0]
        rest = batches[tp][1:]
        queue = list(ma._batches.get(tp, ()))
        age = now - head._ctime
        leaderless = pl["leader"] in (None, -1)
        if leaderless and not pl["muted"]:
            any_unknown = True
        if pl["muted"] or (not leaderless and pl["leader"] in ignore):
            want = "stay"
        elif leaderless:
            if tm is not None and pl["head_is_retry"]:
                # its sequence numbers are taken: it can only be re-sent, dropping it leaves a gap for the next batch
                want = "stay"
            else:
                want = "fail" if bool(age > TTL) else "stay"
        elif not pl["closed"] and bool(age < LINGER):
            want = "stay"
        else:
            want = "drain"
        if src.twin and want == "drain":
            want = "stay"
        if want == "stay":
            src.check(tp not in drained and queue == batches[tp], f"{tp}: queue changed although the head may not be sent now "
                      "(muted / leader busy or unknown / lingering / an already-sequenced batch of an idempotent producer waiting for a leader)",
                      plan=str(pl))
            if tm is not None:
                src.check(tm.sequence_number(tp) == out["seq_before"][tp], f"{tp}: sequence counter moved although nothing was drained")
        elif want == "fail":
            src.check(tp not in drained and queue == rest, f"{tp}: expired head of a leaderless partition was not removed", plan=str(pl))
            f = head.future
            src.check(f.done() and isinstance(f.exception(), (NotLeaderForPartitionError, LeaderNotAvailableError)),
                      f"{tp}: expired head of a leaderless partition was not failed with a leadership error")
            if tm is not None:
                src.check(tm.sequence_number(tp) == out["seq_before"][tp],
                          f"{tp}: a batch that was failed without being sent consumed sequence numbers (the next batch leaves a gap)")
        else:
            src.check(drained.get(tp) is head, f"{tp}: the batch handed to the sender is not the head of the queue "
                      "(a re-enqueued batch must go out before newer ones)", plan=str(pl))
            src.check(queue == rest, f"{tp}: queue after the drain is not the old queue minus its head")
            src.check(tp in nodes.get(pl["leader"], {}), f"{tp}: batch grouped under a node that is not the partition's leader")
            if tm is not None:
                st = head._builder.state
                if pl["head_is_retry"]:
                    src.check(st == out["state_before"][head], f"{tp}: a re-sent batch was stamped with a new sequence number")
                    src.check(tm.sequence_number(tp) == out["seq_before"][tp], f"{tp}: a re-sent batch advanced the sequence counter again")
                else:
                    src.check(st is not None and st[0] == 77 and st[1] == 3, f"{tp}: batch not stamped with the producer id/epoch")
                    if st is not None:
                        src.check(st[2] == out["seq_before"][tp], f"{tp}: base sequence of the drained batch is not the partition's next sequence")
                    src.check(tm.sequence_number(tp) == out["seq_before"][tp] + out["counts"][head],
                              f"{tp}: sequence counter not advanced by the batch's record count")
    src.check(bool(out["unknown"]) == any_unknown, "unknown_leaders_exist flag wrong")
    src.check(set(drained) <= set(tps) and all(len(d) >= 1 for d in nodes.values()), "malformed drain result")


def _u1(tier):
    from aiokafka.producer.message_accumulator import MessageAccumulator, MessageBatch
    hs = []
    # (three partitions: 6.4 million queries did not finish in 25 min; partitions are handled independently by the code)
    for nparts, idem in ([(1, True), (2, True), (1, False)] if tier == "quick" else [(1, True), (2, True), (2, False)]):
        hs.append(Harness(
            name=f"U1_drain_step_{nparts}partitions{'_idempotent' if idem else ''}", fn=u1_drain_step,
            params={"nparts": nparts, "idempotent": idem},
            functions=[MessageAccumulator.drain_by_nodes, MessageAccumulator._pop_batch, MessageAccumulator.reenqueue,
                       MessageBatch.expired, MessageBatch.remaining_linger, TransactionManager.sequence_number,
                       TransactionManager.increment_sequence_number],
            shape="U",
            symbolic_vars="clock, creation time of every queued batch, record counts, per-partition sequence counters (unbounded z3 Ints); queue lengths 0-2, leader (node 0 / 1 / unknown / none), muted, busy nodes, linger, head sent before, head builder closed as choices",
            bounds={"partitions": nparts, "queue_length": "0..2", "sequence": "below the wrap (see K1 / D3)"},
            stubs=["record builder replaced by a stub (record_count, closed, _set_producer_state)", "cluster metadata stub",
                   "time.monotonic inside the accumulator module returns the symbolic clock", "loop.call_later recorded, not scheduled"],
            assumptions=["batches of a queue are in creation order and not created in the future"],
            max_seconds=300 if tier == "quick" else 1500, max_paths=2000000, twin_max_paths=2000))
    return hs


# ------------------------------------------------------------------------------------------
# S3: a partition without a leader for longer than the batch time-to-live: the waiting batch fails (the
# application is told), and what is sent afterwards must still carry gap-free sequence numbers


def s3_leaderless_expiry(src):
    import asyncio
    import aiokafka.errors as E
    from aiokafka import AIOKafkaProducer
    from env import simkafka, vloop

    idem = src.flag("idempotent")
    outage = [0.4, 1.6, 2.4][src.choice("leaderless_for", 3)]      # request timeout (= batch ttl) is 1 s
    before = src.choice("records_acknowledged_before_the_outage", 2)
    during = 1 + src.choice("records_sent_during_the_outage", 2)
    # how the outage starts: the client's metadata already shows no leader when the record is sent, or the
    # record's batch is on its way and the old leader refuses it (NOT_LEADER) as the leadership goes away
    begins = ["metadata_first", "batch_refused_by_old_leader"][src.choice("outage_begins_with", 2)]
    cluster = simkafka.Cluster(nodes=(0, 1), topics={"t": 2})
    res = {"during": [], "after": []}
    armed = []

    def fault_fn(c, node, req, entry):
        if armed and req.API_KEY == 0:
            armed.clear()
            c.leader[("t", 0)] = -1
            return ("error", 6)
        return None
    cluster.fault_fn = fault_fn

    async def main(loop):
        with simkafka.installed(cluster):
            kw = dict(bootstrap_servers="h0:9092", request_timeout_ms=1000, retry_backoff_ms=100, metadata_max_age_ms=300000)
            if idem:
                kw["enable_idempotence"] = True
            p = AIOKafkaProducer(**kw)
            await p.start()
            try:
                for i in range(before):
                    await (await p.send("t", b"b%d" % i, key=b"k", partition=0))
                real = cluster.leader[("t", 0)]
                if begins == "metadata_first":
                    cluster.leader[("t", 0)] = -1
                    await p.client.force_metadata_update()
                else:
                    armed.append(1)
                futs = []
                for i in range(during):
                    try:
                        futs.append(await p.send("t", b"d%d" % i, key=b"k", partition=0))
                    except E.KafkaError as e:
                        res["during"].append("send raised " + type(e).__name__)
                await asyncio.sleep(outage)
                cluster.leader[("t", 0)] = real
                await p.client.force_metadata_update()
                await asyncio.sleep(1.5)
                for f in futs:
                    if f.done():
                        res["during"].append("ok" if f.exception() is None else type(f.exception()).__name__)
                    else:
                        res["during"].append("pending")
                for i in range(2):
                    try:
                        f = await p.send("t", b"a%d" % i, key=b"k", partition=0)
                        await asyncio.wait_for(f, 10)
                        res["after"].append("ok")
                    except asyncio.TimeoutError:
                        res["after"].append("pending after 10 s")
                    except E.KafkaError as e:
                        res["after"].append(type(e).__name__)
            finally:
                try:
                    await asyncio.wait_for(p.stop(), 20)
                except (asyncio.TimeoutError, asyncio.CancelledError, Exception) as e:  # noqa: BLE001
                    res["stop"] = repr(e)

    try:
        vloop.run(main, max_vtime=200.0)
    except vloop.Deadlock as e:
        res["deadlock"] = str(e)
    c = cluster
    info = dict(idempotent=idem, leaderless_for=outage, begins=begins, before=before, during=res["during"], after=res["after"],
                presented=[x[3:] for x in c.seq_presented][:8])
    src.note(info)
    src.check("deadlock" not in res, "producer run did not finish in bounded virtual time: " + str(res.get("deadlock")), **info)
    ok = not c.seq_errors
    if src.twin:
        ok = not ok
    src.check(ok, "a sequence gap / reused sequence was presented to a broker (OUT_OF_ORDER_SEQUENCE) after a batch had expired "
              "while its partition had no leader", detail=str(c.seq_errors[:2]), **info)
    src.check(all(x == "ok" for x in res["after"]) and len(res["after"]) == 2,
              "records sent after the leader came back were not acknowledged although no fault is active any more", **info)
    log0 = [r[2] for r in prodsim.log_records(c, ("t", 0))]
    acked = [b"b%d" % i for i in range(before)] + [b"d%d" % i for i, x in enumerate(res["during"]) if x == "ok"] + [b"a0", b"a1"]
    src.check([v for v in log0 if v in acked] == acked, "acknowledged records are not in the log in send order", log=[v.decode() for v in log0], **info)


def _s3(tier):
    from aiokafka.producer.message_accumulator import MessageAccumulator
    return [Harness(
        name="S3_leaderless_expiry", fn=s3_leaderless_expiry,
        functions=[MessageAccumulator.drain_by_nodes, MessageAccumulator._pop_batch], shape="S",
        symbolic_vars="choices: idempotence, length of the leaderless window (shorter / longer than the batch time-to-live), records before and during it",
        bounds={"records": "3..5", "partitions": 1},
        stubs=["AIOKafkaConnection -> SimConn (request-level cluster model, env/simkafka.py)", "virtual-time event loop"],
        assumptions=["broker behaviour as modelled in env/simkafka.py (sequence rule: DESIGN Appendix B1)"],
        max_seconds=300, max_paths=10000, twin_max_paths=100)]


# ------------------------------------------------------------------------------------------
# S4: sequence numbers run on across transactions, whatever way the previous transaction ended


def s4_sequence_across_transactions(src):
    import asyncio
    import aiokafka.errors as E
    from env import simkafka, vloop
    from . import txnsim
    ends = [["commit", "abort"][src.choice(f"transaction_{i}_ends_by", 2)] for i in range(2)]
    counts = [1 + src.choice(f"records_in_transaction_{i}", 2) for i in range(3)]
    cluster = simkafka.Cluster(nodes=(0, 1), topics={"t": 2})
    res = {"acked": []}

    async def main(loop):
        with simkafka.installed(cluster):
            prod = await txnsim.open_producer(cluster)
            try:
                for i in range(3):
                    await prod.begin_transaction()
                    futs = []
                    for k in range(counts[i]):
                        futs.append(await prod.send("t", b"t%d-%d" % (i, k), key=b"k", partition=0))
                    if i == 2 or ends[i] == "commit":
                        await prod.commit_transaction()
                        res["acked"] += [b"t%d-%d" % (i, k) for k in range(counts[i])]
                    else:
                        await prod.abort_transaction()
                    for f in futs:
                        if f.done() and f.exception() is not None:
                            res.setdefault("failed", []).append(repr(f.exception()))
            except (E.KafkaError, AssertionError) as e:
                res["error"] = repr(e)
            finally:
                try:
                    await asyncio.wait_for(prod.stop(), 20)
                except (asyncio.TimeoutError, asyncio.CancelledError, Exception) as e:  # noqa: BLE001
                    res["stop"] = repr(e)

    try:
        vloop.run(main, max_vtime=200.0)
    except vloop.Deadlock as e:
        res["deadlock"] = str(e)
    c = cluster
    info = dict(ends=ends, counts=counts, presented=[x[3:] for x in c.seq_presented][:8], error=res.get("error"), failed=res.get("failed"))
    src.note(info)
    src.check("deadlock" not in res, "transactional producer did not finish: " + str(res.get("deadlock")), **info)
    ok = not c.seq_errors and c.duplicates_absorbed == 0
    if src.twin:
        ok = not ok
    src.check(ok, "a sequence number was reused or skipped across transactions although no request was ever retried "
              f"(sequence errors {c.seq_errors[:2]}, batches the broker took for replays: {c.duplicates_absorbed})", **info)
    src.check("error" not in res and not res.get("failed"), "a fault-free sequence of transactions failed: " + str(res.get("error") or res.get("failed")), **info)
    view = [r[2] for r in c.logs[("t", 0)].visible_records(1)]
    src.check(view == res["acked"], "the records of the committed transactions are not exactly the ones a read-committed reader sees, in order",
              visible=[v.decode() for v in view], **info)


def _s4(tier):
    from aiokafka.producer.transaction_manager import TransactionManager as TM
    return [Harness(
        name="S4_sequence_across_transactions", fn=s4_sequence_across_transactions,
        functions=[TM.complete_transaction, TM.sequence_number, TM.increment_sequence_number], shape="S",
        symbolic_vars="choices: how each of the first two transactions ends (commit/abort), records per transaction",
        bounds={"transactions": 3, "records_per_transaction": "1..2", "partitions": 1},
        stubs=["AIOKafkaConnection -> SimConn (request-level cluster model, env/simkafka.py)", "virtual-time event loop"],
        assumptions=["broker behaviour as modelled in env/simkafka.py (sequence rule: DESIGN Appendix B1)"],
        max_seconds=300, max_paths=10000, twin_max_paths=100)]


def _s2(tier):
    from aiokafka.producer.sender import Sender
    from aiokafka.producer.message_accumulator import MessageAccumulator
    return [Harness(
        name="S2_transactional_leader_move", fn=s2_txn_leader_move,
        functions=[Sender._sender_routine, Sender._maybe_do_transactional_request, MessageAccumulator.drain_by_nodes],
        shape="S",
        symbolic_vars="choices: reply delay of the old leader, AddPartitionsToTxn delay, metadata max age, when the leadership of p0 moves, pause and order of the second sends",
        bounds={"transactions": 1, "records": 4, "partitions": 2, "brokers": 2},
        stubs=["AIOKafkaConnection -> SimConn (request-level cluster model, env/simkafka.py)", "virtual-time event loop"],
        assumptions=["broker behaviour as modelled in env/simkafka.py"],
        max_seconds=300, max_paths=100000, twin_max_paths=500)]


_k_harnesses = harnesses


def harnesses(tier):  # noqa: F811
    return _k_harnesses(tier) + _u1(tier) + _s1(tier) + _s2(tier) + _s3(tier) + _s4(tier)
