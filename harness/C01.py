"""C01 — per-partition produce order; no loss, no duplication under retries."""
from symx import Harness

from aiokafka.producer.transaction_manager import TransactionManager
from aiokafka.structs import TopicPartition

from .common import in_loop

MAXSEQ = 2 ** 31 - 1


def k1_sequence_wrap(src):
    """increment_sequence_number vs Kafka's DefaultRecordBatch.incrementSequence:
    next = (seq + inc) mod 2^31 (0..2^31-1 wrap-around rule)."""
    seq = src.zint("seq", 0, MAXSEQ)
    inc = src.zint("inc", 1, MAXSEQ)
    tp = TopicPartition("t", 0)

    def run():
        tm = TransactionManager(None, 1000)
        tm._sequence_numbers[tp] = seq
        tm.increment_sequence_number(tp, inc)
        return tm.sequence_number(tp)

    got = in_loop(run)
    bad = 1 if src.twin else 0
    if seq + inc <= MAXSEQ:
        src.check(got == seq + inc + bad, "sequence increment without wrap: next != seq + inc")
    else:
        src.check(got == seq + inc - 2 ** 31 + bad,
                  "sequence wrap: next != (seq + inc) mod 2^31 (Kafka's 0..2^31-1 wrap-around rule)")
        src.check((got >= 0) & (got <= MAXSEQ), "sequence wrap: sequence outside 0..2^31-1 after wrap")


def harnesses(tier):
    hs = [Harness(
        name="K1_sequence_wrap", fn=k1_sequence_wrap,
        functions=[TransactionManager.increment_sequence_number, TransactionManager.sequence_number],
        shape="K", symbolic_vars="seq in [0,2^31-1], inc in [1,2^31-1] (z3 Int)",
        bounds={"seq": "0..2^31-1 (all)", "inc": "1..2^31-1 (all)"},
        note="oracle: org.apache.kafka.common.record.DefaultRecordBatch.incrementSequence")]
    return hs
