"""Composed bounded runs of several real AIOKafkaConsumer group members on the virtual loop against
simkafka's group coordinator (shared by C04, C05, C06, C13, C19)."""
import asyncio

import aiokafka.errors as E
from aiokafka import AIOKafkaConsumer, ConsumerRebalanceListener
from aiokafka.coordinator.assignors.range import RangePartitionAssignor
from aiokafka.coordinator.assignors.roundrobin import RoundRobinPartitionAssignor
from aiokafka.coordinator.assignors.sticky.sticky_assignor import StickyPartitionAssignor
from aiokafka.coordinator.protocol import ConsumerProtocolMemberAssignment
from aiokafka.structs import TopicPartition

from env import simkafka, vloop
from specs import refcodec as R

class SplitEntriesAssignor(RoundRobinPartitionAssignor):
    """a custom assignor that lists every partition in an entry of its own, so a topic appears in several
    (topic, [partitions]) entries of a member's assignment -- legal on the wire"""
    name = "rrsplit"

    @classmethod
    def assign(cls, cluster, members):
        out = {}
        for mid, a in super().assign(cluster, members).items():
            out[mid] = ConsumerProtocolMemberAssignment(a.version, [(t, [p]) for t, ps in a.assignment for p in ps], a.user_data)
        return out


ASSIGNORS = {"range": RangePartitionAssignor, "roundrobin": RoundRobinPartitionAssignor, "sticky": StickyPartitionAssignor,
             "rrsplit": SplitEntriesAssignor}


class Listener(ConsumerRebalanceListener):
    def __init__(self, member, delay=0.0):
        self.m = member
        self.delay = delay

    async def on_partitions_revoked(self, revoked):
        m = self.m
        m.events.append((m.now(), "revoke_start", sorted(revoked)))
        m.revoking = set(revoked)
        if self.delay:
            await asyncio.sleep(self.delay)
        m.events.append((m.now(), "revoke_end", sorted(revoked)))

    async def on_partitions_assigned(self, assigned):
        m = self.m
        snap = {tp: off for tp, (off, _) in m.run.cluster.group(m.run.gid).offsets.items()}
        m.events.append((m.now(), "assign_start", sorted(assigned), dict(snap),
                         sorted(m.consumer.assignment())))
        m.revoking = set()
        m.owned = set(assigned)
        for tp in assigned:
            m.given[(tp.topic, tp.partition, len(m.assign_epochs))] = snap.get((tp.topic, tp.partition))
        m.assign_epochs.append((m.now(), sorted(assigned), snap))
        m.events.append((m.now(), "assign_end", sorted(assigned)))


class DelegatingListener(Listener):
    """plain methods that hand back the coroutine of an async helper (a wrapper that is not async-aware)"""

    def on_partitions_revoked(self, revoked):
        return Listener.on_partitions_revoked(self, revoked)

    def on_partitions_assigned(self, assigned):
        return Listener.on_partitions_assigned(self, assigned)


class SyncListener(Listener):
    """ordinary synchronous callbacks"""

    def on_partitions_revoked(self, revoked):
        m = self.m
        m.events.append((m.now(), "revoke_start", sorted(revoked)))
        m.revoking = set(revoked)
        m.events.append((m.now(), "revoke_end", sorted(revoked)))

    def on_partitions_assigned(self, assigned):
        co = Listener.on_partitions_assigned(self, assigned)
        try:
            co.send(None)  # the async version never suspends
        except StopIteration:
            pass


LISTENERS = {"async": Listener, "delegating": DelegatingListener, "sync": SyncListener}


class Member:
    def __init__(self, run, name, cfg):
        self.run, self.name, self.cfg = run, name, cfg
        self.events = []
        self.deliveries = []  # (time, topic, partition, offset)
        self.revoking = set()
        self.owned = set()
        self.given = {}
        self.assign_epochs = []
        self.consumer = None
        self.app = None
        self.alive = False
        self.crashed = False
        self.stop_result = None
        self.errors = []

    def now(self):
        return asyncio.get_event_loop().time()

    async def start(self):
        cfg = self.cfg
        run = self.run
        self.consumer = AIOKafkaConsumer(
            bootstrap_servers="h0:9092", group_id=run.gid, client_id=self.name,
            enable_auto_commit=cfg.get("auto_commit", True), auto_commit_interval_ms=cfg.get("auto_commit_interval_ms", 200),
            auto_offset_reset=cfg.get("policy", "earliest"),
            isolation_level=cfg.get("isolation_level", "read_uncommitted"),
            partition_assignment_strategy=[ASSIGNORS[a] for a in cfg.get("assignors", ["roundrobin"])],
            session_timeout_ms=cfg.get("session_timeout_ms", 1000), heartbeat_interval_ms=cfg.get("heartbeat_interval_ms", 100),
            rebalance_timeout_ms=cfg.get("rebalance_timeout_ms", 1000), max_poll_interval_ms=cfg.get("max_poll_interval_ms", 300000),
            fetch_max_wait_ms=50, request_timeout_ms=cfg.get("request_timeout_ms", 1000), retry_backoff_ms=50,
            metadata_max_age_ms=cfg.get("metadata_max_age_ms", 300000),
            group_instance_id=cfg.get("group_instance_id"))
        self.consumer.subscribe(cfg.get("topics", ["t"]), listener=LISTENERS[cfg.get("listener_style", "async")](self, cfg.get("listener_delay", 0.0)))
        await self.consumer.start()
        self.alive = True
        self.events.append((self.now(), "started"))
        self.app = asyncio.ensure_future(self._app())

    async def _app(self):
        c = self.consumer
        try:
            while self.alive:
                if getattr(self, "pause_until", 0) > self.now():
                    # the application is busy with something else and does not poll for a while
                    await asyncio.sleep(self.pause_until - self.now())
                    self.events.append((self.now(), "polling_resumed"))
                try:
                    d = await c.getmany(timeout_ms=50, max_records=self.cfg.get("max_records"))
                except E.ConsumerStoppedError:
                    return
                except E.KafkaError as e:
                    self.errors.append((self.now(), repr(e)))
                    await asyncio.sleep(0.05)
                    continue
                t = self.now()
                for tp, recs in d.items():
                    for r in recs:
                        self.deliveries.append((t, tp.topic, tp.partition, r.offset, tuple(sorted(self.revoking)),
                                                len(self.assign_epochs) - 1))
                if self.cfg.get("manual_commit_every") and d:
                    try:
                        await c.commit()
                    except E.KafkaError as e:
                        self.errors.append((self.now(), "commit " + repr(e)))
        except asyncio.CancelledError:
            pass

    async def stop(self):
        """graceful stop()"""
        self.alive = False
        t0 = self.now()
        self.events.append((t0, "stop_called"))
        try:
            await self.consumer.stop()
            self.stop_result = ("ok", self.now() - t0)
        except (asyncio.CancelledError, Exception) as e:  # noqa: BLE001
            self.stop_result = ("raised " + type(e).__name__, self.now() - t0)
        self.events.append((self.now(), "stop_returned", self.stop_result))
        if self.app is not None:
            self.app.cancel()

    def pause_polling(self, seconds):
        self.pause_until = self.now() + seconds
        self.events.append((self.now(), "polling_paused", seconds))

    def crash(self):
        """kill without leave and without final commit: the member's network goes dark and its
        application loop stops; the coordinator only notices through the session timeout"""
        self.alive = False
        self.crashed = True
        self.run.cluster.blackhole.add(self.name)
        self.events.append((self.now(), "crashed"))
        if self.app is not None:
            self.app.cancel()
        for c in list(self.run.cluster.conns):
            if getattr(c, "client_id", None) == self.name and c.connected():
                c.close(reason="crash")


class GroupRun:
    def __init__(self, src, cfg):
        self.src, self.cfg = src, cfg
        self.gid = "g"
        topics = cfg.get("cluster_topics", {"t": 2})
        self.cluster = simkafka.Cluster(nodes=(0, 1), topics=topics, versions=cfg.get("versions"))
        self.cluster.blackhole = set()
        self.members = {}
        self.timeline = []
        nrec = cfg.get("records_per_partition", 3)
        for (t, p), log in self.cluster.logs.items():
            for i in range(nrec):
                recs = [dict(offset=i, timestamp=1000 + i, key=b"%s-%d-%d" % (t.encode(), p, i), value=b"v", headers=[])]
                raw = R.encode_v2(i, recs)
                log.prefill(raw, i, i, [(i, recs[0]["key"], b"v", (), 1000 + i)])

    def member(self, name, **over):
        cfg = dict(self.cfg.get("member", {}))
        cfg.update(over)
        m = Member(self, name, cfg)
        self.members[name] = m
        return m

    # ---- oracle helpers
    def decoded_history(self):
        out = []
        for gen, assignments, members in self.cluster.group(self.gid).history:
            dec = {}
            for mid, raw in assignments.items():
                if not raw:
                    dec[mid] = set()
                    continue
                a = ConsumerProtocolMemberAssignment.decode(raw)
                dec[mid] = {(t, p) for t, ps in a.assignment for p in ps}
            out.append((gen, dec, members))
        return out


def run_group(src, cfg, scenario, max_vtime=120.0):
    """scenario: coroutine function(run, loop) driving joins/leaves/crashes; returns the GroupRun"""
    run = GroupRun(src, cfg)
    res = {"run": run}

    async def main(loop):
        with simkafka.installed(run.cluster):
            try:
                await scenario(run, loop)
            finally:
                res["tasks_left"] = None

    try:
        vloop.run(main, max_vtime=max_vtime)
    except vloop.Deadlock as e:
        res["deadlock"] = str(e)
    return res
