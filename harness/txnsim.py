"""Composed bounded runs of the real transactional AIOKafkaProducer on the virtual loop against
simkafka's transaction coordinator (shared by C07, C16 and the transactional part of C19)."""
import asyncio

import aiokafka.errors as E
from aiokafka import AIOKafkaProducer
from aiokafka.structs import OffsetAndMetadata, TopicPartition

from env import simkafka, vloop

TXN_APIS = {22: "InitProducerId", 24: "AddPartitionsToTxn", 25: "AddOffsetsToTxn", 26: "EndTxn",
            28: "TxnOffsetCommit", 10: "FindCoordinator", 0: "Produce"}

# codes a Kafka (2.8) coordinator / leader returns for that API that the protocol treats as retriable
RETRIABLE = {22: (14, 15, 16, 51), 24: (14, 15, 16, 51, 3), 25: (14, 15, 16, 51), 26: (14, 15, 16, 51),
             28: (14, 15, 16, 3), 10: (15,), 0: (6, 5, 3, 7, 19)}
ABORTABLE = {24: (29,), 25: (30,), 28: (30,)}
FATAL = {24: (47, 53), 25: (47, 53), 26: (47,), 28: (47, 53), 0: (47, 45)}
# a leader refusing one batch for good (MESSAGE_TOO_LARGE): the batch fails, the transaction cannot commit
PRODUCE_REJECT = {0: (10,)}
TRANSPORT = ["drop_before", "drop_after", "timeout_before", "timeout_after", "node_down_failover"]


class TxnFaults:
    def __init__(self, src, kinds, max_requests, max_faults, apis=None):
        self.src, self.kinds = src, kinds
        self.max_requests, self.max_faults = max_requests, max_faults
        self.apis = apis or set(TXN_APIS)
        self.seen = self.used = 0
        self.enabled = False
        self.log = []
        self.delivered = []  # faults whose reply has been produced: (kind class, api, code)

    def menu(self, k):
        m = ["none"]
        if "retriable" in self.kinds:
            m += [("error", c) for c in RETRIABLE.get(k, ())] + TRANSPORT
        if "abortable" in self.kinds:
            m += [("error", c) for c in ABORTABLE.get(k, ())]
        if "produce_reject" in self.kinds:
            m += [("error", c) for c in PRODUCE_REJECT.get(k, ())]
        if "fatal" in self.kinds:
            m += [("error", c) for c in FATAL.get(k, ())]
        return m

    def classify(self, k, f):
        if isinstance(f, tuple):
            if f[1] in ABORTABLE.get(k, ()) or (k == 10 and f[1] == 30):
                return "abortable"
            if f[1] in FATAL.get(k, ()):
                return "fatal"
            if f[1] in PRODUCE_REJECT.get(k, ()):
                return "produce_reject"
        return "retriable"

    def __call__(self, cluster, node, req, entry):
        k = req.API_KEY
        if not self.enabled or k not in self.apis:
            return None
        self.seen += 1
        if self.seen > self.max_requests or self.used >= self.max_faults:
            return None
        menu = self.menu(k)
        if k == 10 and "abortable" in self.kinds and getattr(req, "coordinator_type", getattr(req, "key_type", 1)) == 0:
            # looking up the *group* coordinator (send_offsets_to_transaction): GROUP_AUTHORIZATION_FAILED
            menu = menu + [("error", 30)]
        if len(menu) == 1:
            return None
        f = menu[self.src.choice(f"tfault{self.seen}", len(menu))]
        if f == "none":
            return None
        self.used += 1
        if f == "node_down_failover":
            # the broker this request went to dies; its partitions and coordinator roles move to the
            # other broker (metadata and FindCoordinator reflect that at once)
            other = [n for n in cluster.nodes if n != node][0]
            cluster.down.discard(other)  # brokers fail one at a time: the one that failed earlier is back by now
            cluster.down.add(node)
            for tp, ld in list(cluster.leader.items()):
                if ld == node:
                    cluster.leader[tp] = other
            if cluster.txn_coordinator_node == node:
                cluster.txn_coordinator_node = other
            if cluster.group_coordinator_node == node:
                cluster.group_coordinator_node = other
            for c in list(cluster.conns):
                if c.node == node and c.connected():
                    c.close(reason="sim-broker-down")
            self.log.append((self.seen, TXN_APIS[k], f, "retriable"))
            self.delivered.append(("retriable", k, f))
            return "drop_before"
        cls = self.classify(k, f)
        self.log.append((self.seen, TXN_APIS[k], f, cls))
        entry["fault_class"] = cls
        self.delivered.append((cls, k, f))
        return f


def committed_view(cluster, tp):
    """independent read-committed reader over the simulated log"""
    return [(r[1], r[2]) for r in cluster.logs[tp].visible_records(1)]


async def open_producer(cluster, tid="tx", **over):
    kw = dict(bootstrap_servers=["h0:9092", "h1:9092"], transactional_id=tid, request_timeout_ms=1000, retry_backoff_ms=50,
              linger_ms=0, transaction_timeout_ms=60000)
    kw.update(over)
    p = AIOKafkaProducer(**kw)
    await p.start()
    return p
