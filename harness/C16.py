"""C16 — transactional API is a strict state machine with recoverable and fatal errors."""
import asyncio

from symx import Harness

import aiokafka.errors as E
from aiokafka.producer.producer import AIOKafkaProducer, TransactionContext
from aiokafka.producer.sender import Sender
from aiokafka.producer.transaction_manager import TransactionManager, TransactionState
from aiokafka.structs import OffsetAndMetadata, TopicPartition

from env import simkafka, vloop
from . import txnsim

ALPHABET = ["begin", "send0", "send1", "send_offsets", "commit", "abort", "ctx_ok", "ctx_exc", "ctx_ok_await"]


class _Boom(Exception):
    pass


class RefModel:
    """KafkaProducer javadoc: READY -begin-> IN_TXN -commit/abort-> READY; ABORTABLE after an abortable
    error (commit raises it, abort recovers); FATAL absorbs everything."""

    def __init__(self):
        self.state = "READY"

    def expect(self, call):
        s = self.state
        if s == "FATAL":
            return "raises", s
        if call == "begin":
            return ("ok", "IN_TXN") if s == "READY" else ("raises", s)
        if call in ("send0", "send1", "send_offsets"):
            return ("ok", s) if s == "IN_TXN" else ("raises", s)
        if call == "commit":
            return ("ok", "READY") if s == "IN_TXN" else ("raises", s)
        if call == "abort":
            return ("ok", "READY") if s in ("IN_TXN", "ABORTABLE") else ("raises", s)
        if call in ("ctx_ok", "ctx_ok_await"):
            return ("ok", "READY") if s == "READY" else ("raises", s)
        if call == "ctx_exc":
            # begin, body raises, abort; the body's exception propagates
            return ("boom", "READY") if s == "READY" else ("raises", s)
        raise AssertionError(call)


async def _do(p, call, n):
    if call == "begin":
        await p.begin_transaction()
    elif call == "send0":
        return await p.send("t", b"v%d" % n, key=b"k%d" % n, partition=0)
    elif call == "send1":
        return await p.send("t", b"v%d" % n, key=b"k%d" % n, partition=1)
    elif call == "send_offsets":
        await p.send_offsets_to_transaction({TopicPartition("in", 0): OffsetAndMetadata(10 + n, "")}, "grp")
    elif call == "commit":
        await p.commit_transaction()
    elif call == "abort":
        await p.abort_transaction()
    elif call == "ctx_ok":
        async with p.transaction():
            await p.send("t", b"v%d" % n, key=b"k%d" % n, partition=0)
    elif call == "ctx_exc":
        async with p.transaction():
            await p.send("t", b"v%d" % n, key=b"k%d" % n, partition=0)
            raise _Boom()
    elif call == "ctx_ok_await":
        # the application awaits the delivery itself and handles a failure; the block exits normally
        async with p.transaction():
            fut = await p.send("t", b"v%d" % n, key=b"k%d" % n, partition=0)
            try:
                await asyncio.wait_for(asyncio.shield(fut), timeout=5)
            except (E.KafkaError, asyncio.TimeoutError):
                pass


def s1_programs(src, length, fault_kinds, max_fault_requests):
    prog = [ALPHABET[src.choice(f"call{i}", len(ALPHABET))] for i in range(length)]
    cluster = simkafka.Cluster(nodes=(0, 1), topics={"t": 2, "in": 1})
    faults = txnsim.TxnFaults(src, fault_kinds, max_fault_requests, 1, apis={10, 24, 25, 26, 28})
    cluster.fault_fn = faults
    obs = []
    res = {}

    async def main(loop):
        with simkafka.installed(cluster):
            p = await txnsim.open_producer(cluster)
            faults.enabled = True
            model = RefModel()
            seen_faults = 0
            was_abortable = False
            for i, call in enumerate(prog):
                want, nxt = model.expect(call)
                n_before = len(cluster.arrivals)
                logs_before = {tp: log.next_offset for tp, log in cluster.logs.items()}
                pre = model.state
                try:
                    await asyncio.wait_for(_do(p, call, i), timeout=30)
                    got = "ok"
                except _Boom:
                    got = "boom"
                except asyncio.TimeoutError:
                    got = "hangs"
                except (E.KafkaError, E.IllegalOperation, AssertionError, ValueError) as e:
                    got = "raises"
                    err = e
                except (asyncio.InvalidStateError, AttributeError, TypeError, KeyError, RuntimeError) as e:
                    got = f"internal error {type(e).__name__}"
                    err = e
                await asyncio.sleep(0.02)  # background transactional requests of this call complete
                new = faults.delivered[seen_faults:]
                seen_faults = len(faults.delivered)
                newcls = {c for c, _, _ in new}
                if "fatal" in newcls:
                    # the fatal reply arrived during/after this call
                    if call in ("commit", "send_offsets", "ctx_ok", "ctx_ok_await") and want == "ok":
                        # these calls wait for the transactional requests: they cannot succeed after it
                        ok = got == "raises"
                    else:
                        ok = got in ("raises", want) or (want == "boom" and got in ("boom", "raises"))
                    model.state = "FATAL"
                elif "abortable" in newcls:
                    if call in ("commit", "send_offsets", "ctx_ok", "ctx_ok_await"):
                        ok = got in ("raises", want)
                        if call == "commit" and pre == "IN_TXN":
                            ok = got == "raises" and isinstance(err, (E.TopicAuthorizationFailedError, E.GroupAuthorizationFailedError))
                        if got == "raises":
                            model.state = "ABORTABLE" if not call.startswith("ctx_ok") else "ABORTABLE_OR_READY"
                        else:
                            model.state = nxt
                    elif call in ("abort", "ctx_exc"):
                        # the abortable error may land while the abort is in progress: the abort then
                        # raises it and has to be repeated (checked by the epilogue)
                        ok = got in (want, "raises")
                        model.state = "READY" if got == want else "ABORTABLE_OR_READY"
                    else:
                        ok = got == want
                        model.state = "ABORTABLE" if nxt == "IN_TXN" else nxt
                    if model.state == "ABORTABLE_OR_READY":
                        # TransactionContext exit on an error inside the body aborts the transaction
                        model.state = "READY" if p._txn_manager.state == TransactionState.READY else "ABORTABLE"
                    was_abortable = was_abortable or model.state == "ABORTABLE"
                else:
                    ok = got == want
                    if ok and call == "commit" and pre == "ABORTABLE":
                        # commit re-raises the stored abortable error
                        ok = isinstance(err, (E.TopicAuthorizationFailedError, E.GroupAuthorizationFailedError))
                        if not ok:
                            got = f"raises {type(err).__name__} instead of the stored authorization error"
                    if ok:
                        model.state = nxt
                obs.append(dict(i=i, call=call, pre=pre, want=want, got=got, ok=ok, new_faults=[str(x) for x in new],
                                # requests with an effect on the cluster (metadata / coordinator lookups are reads)
                                requests=sum(1 for a in cluster.arrivals[n_before:]
                                             if a["req"]["api"] in ("Produce", "AddPartitionsToTxn", "AddOffsetsToTxn",
                                                                    "TxnOffsetCommit", "EndTxn", "InitProducerId")),
                                appended={str(tp): cluster.logs[tp].next_offset - logs_before[tp] for tp in logs_before
                                          if cluster.logs[tp].next_offset != logs_before[tp]}))
                if not ok:
                    break
            res["final_model"] = model.state
            faults.enabled = False
            await asyncio.sleep(0.05)
            if faults.delivered[seen_faults:]:
                # a fault injected at the very end is delivered now
                cls = {c for c, _, _ in faults.delivered[seen_faults:]}
                model.state = "FATAL" if "fatal" in cls else ("ABORTABLE" if model.state == "IN_TXN" else model.state)
                res["final_model"] = model.state
            # epilogue: from ABORTABLE abort() must recover; then (or from READY) a new transaction succeeds
            if model.state in ("IN_TXN", "ABORTABLE"):
                try:
                    await asyncio.wait_for(p.abort_transaction(), timeout=30)
                    res["cleanup_abort"] = "ok"
                    model.state = "READY"
                except (E.KafkaError, E.IllegalOperation, AssertionError, asyncio.TimeoutError) as e:
                    res["cleanup_abort"] = repr(e)
            faults.enabled = False
            if model.state == "READY" and all(o["ok"] for o in obs):
                try:
                    await asyncio.wait_for(p.begin_transaction(), timeout=30)
                    f = await p.send("t", b"final", key=b"final", partition=0)
                    await asyncio.wait_for(p.commit_transaction(), timeout=30)
                    res["final_txn"] = "ok" if (b"final", b"final") in txnsim.committed_view(cluster, ("t", 0)) else "committed but invisible"
                except (E.KafkaError, E.IllegalOperation, AssertionError, asyncio.TimeoutError) as e:
                    res["final_txn"] = repr(e)
            try:
                await asyncio.wait_for(p.stop(), timeout=30)
                res["stop"] = "ok"
            except (asyncio.TimeoutError, asyncio.CancelledError, Exception) as e:  # noqa: BLE001
                res["stop"] = repr(e)

    try:
        vloop.run(main, max_vtime=600)
    except vloop.Deadlock as e:
        res["deadlock"] = str(e)
    info = dict(program=prog, faults=faults.log, trace=[(o["call"], o["pre"], o["want"], o["got"]) for o in obs])
    src.note(info)
    src.check("deadlock" not in res, "transactional program did not finish in bounded virtual time: " + str(res.get("deadlock")), **info)
    for o in obs:
        ok = o["ok"]
        if src.twin and o["call"] == "begin":
            ok = not ok
        src.check(ok, f"call {o['i']} {o['call']} in state {o['pre']}: expected '{o['want']}', got '{o['got']}'", **info)
        # (after a retriable fault the library's retries of an *earlier* call arrive whenever their back-off ends: the
        #  requests seen during a later, refused call cannot be attributed to it then)
        if o["want"] == "raises" and o["got"] == "raises" and not o["new_faults"] and not any(f[3] == "retriable" for f in faults.log):
            src.check(o["requests"] == 0 and not o["appended"],
                      f"refused call {o['call']} in state {o['pre']} still reached the cluster ({o['requests']} request(s))", **info)
        if o["pre"] == "FATAL":
            src.check(not o["appended"], f"records were written after a fatal error (call {o['call']})", **info)
    if "cleanup_abort" in res:
        src.check(res["cleanup_abort"] == "ok", "abort_transaction() did not return the producer to a usable state: " + res["cleanup_abort"], **info)
    if "final_txn" in res:
        src.check(res["final_txn"] == "ok", "a new transaction after recovery did not succeed: " + res["final_txn"], **info)
    if "stop" in res and res.get("final_model") != "FATAL":
        src.check(res["stop"] == "ok", "stop() failed after the program: " + res["stop"], **info)


def harnesses(tier):
    q = tier == "quick"
    confs = [(3, ("abortable", "fatal"), 3), (2, ("retriable",), 3)] if q else \
        [(4, ("abortable", "fatal"), 4), (3, ("retriable", "abortable", "fatal"), 4), (5, (), 0)]
    hs = []
    for length, kinds, mfr in confs:
        hs.append(Harness(
            name=f"S1_programs_{length}calls_{'_'.join(kinds) or 'nofault'}", fn=s1_programs,
            params={"length": length, "fault_kinds": kinds, "max_fault_requests": mfr},
            functions=[AIOKafkaProducer.begin_transaction, AIOKafkaProducer.commit_transaction, AIOKafkaProducer.abort_transaction,
                       AIOKafkaProducer.send, AIOKafkaProducer.send_offsets_to_transaction, TransactionContext.__aexit__,
                       TransactionState.is_transition_valid, TransactionManager.committing_transaction,
                       TransactionManager.aborting_transaction, TransactionManager.error_transaction,
                       TransactionManager.fatal_error, Sender._fail_all],
            shape="S",
            symbolic_vars="choices: every program of the given length over {begin, send(p0), send(p1), send_offsets_to_transaction, commit, abort, transaction() exit with/without exception}; one error (retriable/abortable/fatal, per-API menu) at one of the first AddPartitions/AddOffsets/TxnOffsetCommit/EndTxn requests",
            bounds={"calls": length, "fault_kinds": list(kinds), "faultable_requests": mfr},
            stubs=["SimConn + simulated transaction coordinator (DESIGN Appendix C)", "virtual-time loop"],
            max_seconds=500 if q else 3000, max_paths=3000000, twin_max_paths=500))
    return hs
