"""C12 — responses reach exactly their requests; connection failure fails all waiters."""
import asyncio
import collections
import struct

from symx import Harness, SymInt, s_and, s_not, s_or
from symx import shims
from symx.shims import SymBuf, SymReader

import aiokafka.conn as CONN
import aiokafka.errors as Errors
from aiokafka.client import AIOKafkaClient, ConnectionGroup
from aiokafka.conn import AIOKafkaConnection
from aiokafka.protocol.admin import DeleteRecordsRequest, DeleteRecordsRequest_v2, DeleteRecordsResponse_v2
from aiokafka.protocol.coordination import (
    FindCoordinatorRequest,
    FindCoordinatorRequest_v0,
    FindCoordinatorRequest_v1,
    FindCoordinatorResponse_v0,
    FindCoordinatorResponse_v1,
)

from env import vloop
from .C11 import _Env
from .common import in_loop, patched

MAXID = 2 ** 31 - 1


class FakeWriter:
    def __init__(self):
        self.buf = bytearray()
        self.closed = False

    def write(self, data):
        if self.closed:
            raise OSError("closed")
        self.buf += data

    async def drain(self):
        pass

    def close(self):
        self.closed = True

    def get_extra_info(self, *a, **k):
        return None


def make_conn(closed, timeout_ms=60000, reader_task=True, versions=None):
    conn = AIOKafkaConnection("fake", 9092, request_timeout_ms=timeout_ms,
                              on_close=lambda c, r: closed.append(r))
    conn._closed_fut = asyncio.get_event_loop().create_future()
    conn._reader = asyncio.StreamReader()
    conn._writer = FakeWriter()
    conn._versions = versions or {10: (0, 1), 21: (0, 2)}
    if reader_task:
        conn._read_task = conn._create_reader_task()
    else:
        async def _never():
            await asyncio.get_event_loop().create_future()
        conn._read_task = asyncio.ensure_future(_never())
    return conn


# ------------------------------------------------------------------------------------------
# K1


def k1_next_correlation_id(src):
    cur = src.zint("current_id", 0, MAXID)

    def run():
        conn = make_conn([], reader_task=False)
        conn._correlation_id = cur
        r = conn._next_correlation_id()
        stored = conn._correlation_id
        conn._read_task.cancel()
        return r, stored

    r, stored = in_loop(run)
    wrap = src.twin
    if cur + 1 <= MAXID:
        src.check(r == cur + 1 + (1 if wrap else 0), "next correlation id != current + 1")
    else:
        src.check(r == 0 + (1 if wrap else 0), "correlation id does not wrap to 0 at 2^31")
    src.check((r >= 0) & (r <= MAXID), "correlation id outside 0..2^31-1 (does not fit the signed int32 header field)")
    src.check(stored == r, "stored correlation id differs from the returned one")


# ------------------------------------------------------------------------------------------
# U1 frame matching from a symbolic in-flight queue

KINDS = ["fc1", "flex", "fc0", "sasl"]


def _request_struct(kind, i):
    if kind == "fc1":
        return FindCoordinatorRequest_v1(f"g{i}", 0)
    if kind == "fc0":
        return FindCoordinatorRequest_v0(f"g{i}")
    if kind == "flex":
        return DeleteRecordsRequest_v2([("t", [(i, 5, {})], {})], 1000, {})
    return None


def _response_body(kind, i):
    """bytes after the correlation id; each reply is distinguishable by i"""
    if kind == "fc1":
        return FindCoordinatorResponse_v1(0, 0, None, 100 + i, f"host-{i}", 9092).encode()
    if kind == "fc0":
        return FindCoordinatorResponse_v0(0, 100 + i, f"host-{i}", 9092).encode()
    if kind == "flex":
        return b"\x00" + DeleteRecordsResponse_v2(0, [("t", [(100 + i, 7, 0, {})], {})], {}).encode()
    return f"sasl-{i}".encode()


def _reply_marker(kind, resp):
    if kind in ("fc1", "fc0"):
        return resp.coordinator_id - 100
    if kind == "flex":
        return resp.topics[0][1][0][0] - 100
    return int(bytes(resp).split(b"-")[1])


def u1_handle_frame(src, nreq):
    kinds = [KINDS[src.choice(f"kind{i}", 3 if i else 4)] for i in range(nreq)]
    head_state = src.choice("head_waiter", 3)  # 0 pending, 1 cancelled, 2 timed out (exception set)
    ids = []
    for i in range(nreq):
        if kinds[i] == "sasl":
            ids.append(None)
            continue
        c = src.int(f"cid{i}", 0, MAXID)
        for prev in ids:
            if prev is not None:
                src.assume(c != prev, "in-flight correlation ids are pairwise distinct")
        ids.append(c)
    rid_bytes = src.bytes("rid", 4)
    closed = []
    out = {}

    def run():
        conn = make_conn(closed, reader_task=False)
        loop = asyncio.get_event_loop()
        futs = [loop.create_future() for _ in range(nreq)]
        if head_state == 1:
            futs[0].cancel()
        elif head_state == 2:
            futs[0].set_exception(asyncio.TimeoutError())
            futs[0].exception()
        conn._requests = collections.deque(
            (ids[i], _request_struct(kinds[i], i), futs[i]) for i in range(nreq))
        body = _response_body(kinds[0], 0)
        if kinds[0] == "sasl":
            frame = body
        else:
            frame = SymBuf(list(rid_bytes) + list(body), False)

        class _IO:
            BytesIO = SymReader

        exc = None
        with _Env(), patched(CONN, io=_IO):
            try:
                conn._handle_frame(frame)
            except (ValueError, IndexError, struct.error, KeyError, TypeError, AssertionError, Errors.KafkaError) as e:
                exc = e
        out.update(conn=conn, futs=futs, exc=exc, left=[r[0] for r in conn._requests],
                   open=conn._reader is not None, wclosed=conn._writer is None)
        rt = conn._read_task
        if rt is not None:
            rt.cancel()

    in_loop(run)
    futs = out["futs"]
    src.check(out["exc"] is None, f"_handle_frame raised {type(out['exc']).__name__} on a well-formed reply")
    if kinds[0] == "sasl":
        match = True
    else:
        rid = shims._unpack_int("i", rid_bytes)
        match = (rid == ids[0])
        if kinds[0] == "fc0":
            # Kafka 0.8.2 quirk accepted by the code: FindCoordinator v0 reply carrying id 0
            quirk = s_and(rid == 0, s_not(ids[0] == 0))
            if quirk:
                src.check(not (head_state == 0 and futs[0].done() and not futs[0].cancelled()
                               and futs[0].exception() is None) or src.twin is None,
                          "quirk: FindCoordinator v0 reply with correlation id 0 accepted for a request with another id")
                return
    if match:
        if src.twin:
            match = False
    if match:
        src.note({"case": "ids equal", "kinds": kinds, "head_state": head_state})
        src.check(out["open"], "connection closed although the reply matched the head request")
        src.check(len(out["left"]) == nreq - 1, "head entry not popped exactly once after a matching reply")
        if head_state == 0:
            ok = futs[0].done() and not futs[0].cancelled() and futs[0].exception() is None
            src.check(ok, "head waiter did not receive the reply carrying its correlation id")
            if ok:
                src.check(_reply_marker(kinds[0], futs[0].result()) == 0, "head waiter received a different reply")
        for j in range(1, nreq):
            src.check(not futs[j].done(), f"waiter {j} was resolved by a reply addressed to the head request")
        src.check(not closed, "on_close called although nothing failed")
    else:
        src.note({"case": "ids differ", "kinds": kinds, "head_state": head_state})
        src.check(not out["open"], "correlation mismatch did not close the connection")
        src.check(len(closed) == 1, f"on_close called {len(closed)} times after a correlation mismatch")
        src.check(not out["left"], "in-flight queue not cleared after the connection was closed")
        for j in range(nreq):
            f = futs[j]
            if j == 0 and head_state != 0:
                continue
            src.check(f.done(), f"waiter {j} left pending after a correlation mismatch")
            if f.done() and not f.cancelled():
                e = f.exception()
                src.check(e is not None, f"waiter {j} received a reply although the stream is out of sync")
                src.check(isinstance(e, (Errors.KafkaConnectionError, Errors.CorrelationIdError)),
                          f"waiter {j} failed with {type(e).__name__}, not a connection-class error")


# ------------------------------------------------------------------------------------------
# S1: the real reader task on an in-memory stream, arbitrary fragmentation and stream faults

FAULTS = ["none", "wrong_id", "dup_id", "unsolicited", "truncated_body", "eof", "bad_size"]


def _send(conn, kind, i):
    if kind == "sasl":
        return conn._send_sasl_token(f"tok{i}".encode())
    if kind == "flex":
        return conn.send(DeleteRecordsRequest([("t", [(i, 5)])], 1000, tags={}))
    return conn.send(FindCoordinatorRequest(f"g{i}", 0))


def s1_fragmentation(src, nreq, ncuts, kinds_menu, with_waiter_events):
    kinds = [kinds_menu[src.choice(f"kind{i}", len(kinds_menu))] for i in range(nreq)]
    fc_max = src.choice("findcoordinator_max_version", 2)
    fault = FAULTS[src.choice("fault", len(FAULTS))]
    fpos = src.choice("fault_frame", nreq) if fault in ("wrong_id", "dup_id", "truncated_body", "bad_size") else 0
    start_id = [0, MAXID - 1][src.choice("start_id", 2)]  # second: the counter wraps inside the run
    wevent = src.choice("waiter_event", 3) if with_waiter_events else 0  # 0 none, 1 cancel, 2 time out
    wwho = src.choice("waiter", nreq) if wevent else 0
    wwhen = src.choice("waiter_when", 2) if wevent else 0  # 0 before any byte, 1 after the first chunk

    res = {}

    async def main(loop):
        closed = []
        conn = make_conn(closed, timeout_ms=60000, versions={10: (0, fc_max), 21: (0, 2)})
        conn._correlation_id = start_id
        client = AIOKafkaClient(bootstrap_servers="fake:9092", request_timeout_ms=1000)
        client._conns[(0, ConnectionGroup.DEFAULT)] = conn
        conn._on_close_cb = lambda c, r: (closed.append(r), client._on_connection_closed(c, r))
        # waiters go through the real AIOKafkaClient.send (request timeout -> connection closed),
        # except SASL tokens which are sent by the connection itself
        conn._request_timeout = 1.0
        tasks = []
        sent_ids = []
        for i, k in enumerate(kinds):
            if k == "sasl":
                coro = _send(conn, k, i)
            elif k == "flex":
                coro = client.send(0, DeleteRecordsRequest([("t", [(i, 5)])], 1000, tags={}))
            else:
                coro = client.send(0, FindCoordinatorRequest(f"g{i}", 0))
            tasks.append(asyncio.ensure_future(coro))
            await vloop.settle(3)
            sent_ids.append(conn._requests[-1][0] if conn._requests else None)
        # the response stream
        frames = []
        for i, k in enumerate(kinds):
            rk = k
            if k == "fc1" and fc_max == 0:
                rk = "fc0"
            body = _response_body(rk, i)
            cid = sent_ids[i]
            if k != "sasl":
                if fault == "wrong_id" and i == fpos:
                    cid = (cid + 7) % 2 ** 31
                if fault == "dup_id" and i == fpos and i > 0 and sent_ids[i - 1] is not None:
                    cid = sent_ids[i - 1]
                body = struct.pack(">i", cid) + body
            if fault == "truncated_body" and i == fpos:
                body = body[: max(4, len(body) - 3)] if k != "sasl" else body
            fr = struct.pack(">i", len(body)) + body
            if fault == "bad_size" and i == fpos:
                fr = struct.pack(">i", -5) + body
            frames.append(fr)
        stream = b"".join(frames)
        if fault == "unsolicited":
            extra = struct.pack(">i", 12345) + _response_body("fc1", 9)
            stream += struct.pack(">i", len(extra)) + extra
        cuts = []
        lo = 0
        for c in range(ncuts):
            p = lo + src.choice(f"cut{c}", len(stream) + 1 - lo)
            cuts.append(p)
            lo = p
        if fault == "eof":
            eof_at = src.choice("eof_at", len(stream) + 1)
            stream = stream[:eof_at]
            cuts = [min(c, len(stream)) for c in cuts]
        pieces = []
        prev = 0
        for c in cuts + [len(stream)]:
            pieces.append(stream[prev:c])
            prev = c
        reader = conn._reader

        def do_wevent():
            if wevent == 1:
                tasks[wwho].cancel()

        if wevent and wwhen == 0:
            do_wevent()
            await vloop.settle(5)
        for n, piece in enumerate(pieces):
            if piece and conn._reader is not None:
                reader.feed_data(piece)
            await vloop.settle(12)
            if n == 0 and wevent and wwhen == 1:
                do_wevent()
                await vloop.settle(5)
            if wevent == 2 and n == 0:
                # stall: no more bytes for longer than the request timeout
                await asyncio.sleep(1.5)
        if fault == "eof" and conn._reader is not None:
            reader.feed_eof()
        await vloop.settle(12)
        if fault == "eof":
            # transport loss: right away (not a request timeout later) the connection is closed and nobody waits
            res["at_eof"] = dict(pending=[i for i, t in enumerate(tasks) if not t.done()], conn_open=conn._reader is not None,
                                 closed=len(closed))
        elif fault in ("wrong_id", "dup_id", "unsolicited", "bad_size"):
            # the whole (faulty) stream has been fed: a mismatch / malformed frame closes the connection and fails
            # every outstanding waiter then and there
            res["at_fault"] = dict(pending=[i for i, t in enumerate(tasks) if not t.done()], conn_open=conn._reader is not None,
                                   closed=len(closed))
        # quiet period longer than the request timeout: every waiter must be resolved by now
        await asyncio.sleep(3.0)
        await vloop.settle(5)
        res.update(tasks=tasks, kinds=kinds, closed=list(closed), conn_open=conn._reader is not None,
                   sent_ids=sent_ids, left=len(conn._requests))
        for t in tasks:
            if not t.done():
                t.cancel()
        conn.close()
        if not conn._closed_fut.done():
            conn._closed_fut.set_result(None)
        await client.close()

    vloop.run(main)
    tasks, closed = res["tasks"], res["closed"]
    rkinds = [("fc0" if (k == "fc1" and fc_max == 0) else k) for k in kinds]
    faulty = fault != "none"
    if fault == "dup_id" and (fpos == 0 or kinds[fpos] == "sasl" or kinds[fpos - 1] == "sasl"):
        faulty = False
    if fault in ("wrong_id",) and kinds[fpos] == "sasl":
        faulty = False
    if fault == "truncated_body" and kinds[fpos] == "sasl":
        faulty = False
    if fault == "truncated_body" and wevent and wwho == fpos:
        # the body of a reply whose waiter already gave up is not decoded: nothing malformed is observed
        faulty = False
    src.note({"kinds": kinds, "fault": fault, "at": fpos, "waiter_event": [wevent, wwho, wwhen], "closed": [str(c) for c in closed]})
    # (1) nobody is left pending, ever
    for i, t in enumerate(tasks):
        src.check(t.done(), f"waiter {i} still pending after the stream ended and a quiet period > request timeout",
                  fault=fault, kinds=kinds)
    # (2) a waiter that got a result got the reply to its own request
    for i, t in enumerate(tasks):
        if t.done() and not t.cancelled() and t.exception() is None:
            mk = _reply_marker(rkinds[i], t.result())
            src.check(mk == (i if not src.twin else i + 1), f"waiter {i} received the reply of request {mk}", fault=fault, kinds=kinds)
    # (3) replies are delivered in request order: a later waiter never succeeds while an earlier one
    #     (not cancelled / not timed out by the harness) failed with a connection error
    # (4) after a stream fault every outstanding waiter fails with a connection-class error
    if faulty and fault != "eof":
        src.check(not res["conn_open"] or fault == "unsolicited" and False, f"connection still open after stream fault '{fault}'")
    if not res["conn_open"] or closed:
        src.check(len(closed) == 1, f"on_close called {len(closed)} times")
    for i, t in enumerate(tasks):
        if t.done() and not t.cancelled() and t.exception() is not None:
            e = t.exception()
            src.check(isinstance(e, (Errors.KafkaConnectionError, Errors.CorrelationIdError, Errors.RequestTimedOutError,
                                     asyncio.TimeoutError)),
                      f"waiter {i} failed with {type(e).__name__}: not a connection/timeout error", fault=fault)
    if fault == "eof" and "at_eof" in res:
        ae = res["at_eof"]
        src.check(not ae["pending"], f"waiters {ae['pending']} still pending right after the transport was lost (EOF)", kinds=kinds)
        src.check(not ae["conn_open"], "connection not closed right after the transport was lost (EOF)", kinds=kinds)
        for i, t in enumerate(tasks):
            # (a stall longer than the request timeout, wevent 2, times every outstanding waiter out before the EOF)
            if t.done() and not t.cancelled() and t.exception() is not None and wevent != 2:
                src.check(isinstance(t.exception(), (Errors.KafkaConnectionError, Errors.CorrelationIdError)),
                          f"waiter {i} outstanding at EOF failed with {type(t.exception()).__name__}, not a connection error", kinds=kinds)
    if faulty and "at_fault" in res and wevent != 2:
        af = res["at_fault"]
        src.check(not af["pending"], f"waiters {af['pending']} still pending right after a {fault} frame (they are only released by their own request timeout)",
                  kinds=kinds, at=fpos)
        src.check(not af["conn_open"] and af["closed"] == 1, f"connection not closed exactly once right after a {fault} frame",
                  closed=af["closed"], kinds=kinds, at=fpos)
    if fault == "none" and wevent == 0:
        for i, t in enumerate(tasks):
            src.check(t.done() and not t.cancelled() and t.exception() is None,
                      f"waiter {i} did not get its reply on a fault-free stream", kinds=kinds)
        src.check(res["conn_open"], "connection closed on a fault-free stream")
    if fault == "none" and wevent == 1:
        # a cancelled waiter must not disturb the others
        for i, t in enumerate(tasks):
            if i != wwho:
                src.check(t.done() and not t.cancelled() and t.exception() is None,
                          f"waiter {i} lost its reply because waiter {wwho} was cancelled", kinds=kinds)


def harnesses(tier):
    q = tier == "quick"
    hs = [Harness(name="K1_next_correlation_id", fn=k1_next_correlation_id,
                  functions=[AIOKafkaConnection._next_correlation_id], shape="K",
                  symbolic_vars="current id: all of 0..2^31-1 (z3 Int)", bounds={"current_id": "0..2^31-1"})]
    for n in ([1, 2, 3] if q else [1, 2, 3, 4]):
        hs.append(Harness(name=f"U1_handle_frame_{n}req", fn=u1_handle_frame, params={"nreq": n},
                          functions=[AIOKafkaConnection._handle_frame, AIOKafkaConnection.close], shape="U",
                          symbolic_vars="correlation id of every in-flight entry (0..2^31-1, pairwise distinct); the 4 correlation-id bytes of the reply; head waiter state and request kinds (choices)",
                          bounds={"in_flight": n, "kinds": KINDS},
                          assumptions=["in-flight correlation ids are pairwise distinct (they come from a counter mod 2^31 and at most a handful are in flight)"],
                          stubs=["io.BytesIO -> SymReader", "struct shims in protocol.types", "no reader task: _handle_frame is called directly"],
                          max_seconds=300))
    if q:
        confs = [(2, 1, ["fc1", "flex"], False), (2, 1, ["fc1", "sasl"], True)]
    else:
        confs = [(3, 1, ["fc1", "flex", "sasl"], True), (2, 2, ["fc1", "flex"], True), (4, 1, ["fc1", "flex"], False)]
    for nreq, ncuts, menu, wev in confs:
        hs.append(Harness(name=f"S1_fragmentation_{nreq}req_{ncuts}cut_{'_'.join(menu)}{'_wev' if wev else ''}",
                          fn=s1_fragmentation,
                          params={"nreq": nreq, "ncuts": ncuts, "kinds_menu": menu, "with_waiter_events": wev},
                          functions=[AIOKafkaConnection._read, AIOKafkaConnection._handle_frame, AIOKafkaConnection.close,
                                     AIOKafkaConnection._on_read_task_error, AIOKafkaConnection.send, AIOKafkaClient.send],
                          shape="S",
                          symbolic_vars="choices: request kinds, FindCoordinator max version, stream fault and position, cut positions (every byte), EOF position, waiter cancelled/timed out before/after bytes, counter start (0 or 2^31-2)",
                          bounds={"requests": nreq, "cuts": ncuts, "faults": FAULTS},
                          stubs=["TCP transport -> asyncio.StreamReader.feed_data/feed_eof + recording writer", "virtual-time event loop"],
                          assumptions=["asyncio.StreamReader.readexactly is correct (stdlib)"],
                          max_seconds=240 if q else 1500, max_paths=2000000, twin_max_paths=3000))
    return hs
