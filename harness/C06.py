"""C06 — group runs of real AIOKafkaConsumer members against the simulated coordinator."""
from symx import Harness

from aiokafka.consumer.consumer import AIOKafkaConsumer
from aiokafka.consumer.fetcher import Fetcher
from aiokafka.consumer.group_coordinator import CoordinatorGroupRebalance, GroupCoordinator
from aiokafka.consumer.subscription_state import SubscriptionState

from . import groupsim
from . import grouporacles as GO

PROP = "C06"


def s1_group(src, nmembers, times, max_faults, assignors, join_versions, by_api=False):
    cfg = {"member": {"auto_commit": True, "auto_commit_interval_ms": 150, "assignors": list(assignors),
                      "metadata_max_age_ms": 150},
           "versions": {11: join_versions}, "extra_events": ("grow",), "vary_sync_delay": not by_api,
           "vary_heartbeat_delay": max_faults == 0}
    scenario, plan = GO.standard_scenario(src, cfg, nmembers, times, quiet=5.5,  # > 2 x (session + rebalance timeout): crashed members are expired well before the last 1.5 s
                                          fault_apis=(10, 11, 12, 14) if by_api else (8, 10, 11, 12, 14), max_fault_requests=5, max_faults=max_faults,
                                          faults_by_api=by_api)
    res = groupsim.run_group(src, cfg, scenario)
    run = res["run"]
    src.note({"plan": GO._plan(run) if hasattr(run, "plan") else None})
    src.check("deadlock" not in res, "group run did not finish in bounded virtual time: " + str(res.get("deadlock")), plan=GO._plan(run))
    if "deadlock" in res or not hasattr(run, "quiet_to"):
        return
    GO.check_c06(src, run, res, assignors)


def harnesses(tier):
    q = tier == "quick"
    if q:
        confs = [(2, [0.05, 0.3], 0, ("roundrobin",), (0, 2), False), (1, [0.3], 1, ("range", "roundrobin"), (0, 5), False),
                 (2, [0.3], 1, ("roundrobin",), (0, 5), False), (2, [0.3], 1, ("roundrobin",), (0, 2), True)]
    else:
        confs = [(2, [0.05, 0.2, 0.3, 0.62], 1, ("roundrobin",), (0, 2), False), (2, [0.05, 0.3], 2, ("range", "roundrobin", "sticky"), (0, 5), False),
                 (3, [0.05, 0.3], 1, ("sticky", "range"), (0, 5), False), (1, [0.3], 2, ("roundrobin",), (0, 0), False),
                 (2, [0.05, 0.3], 1, ("roundrobin", "range"), (0, 5), True)]
    hs = []
    for n, times, mf, asg, jv, by_api in confs:
        hs.append(Harness(
            name=f"S1_group_{n}members_{len(times)}times_{mf}faults_{'_'.join(asg)}_join{jv[1]}{'_nth_request' if by_api else ''}", fn=s1_group,
            params={"nmembers": n, "times": times, "max_faults": mf, "assignors": asg, "join_versions": jv, "by_api": by_api},
            functions=[GroupCoordinator._coordination_routine if hasattr(GroupCoordinator, "_coordination_routine") else GroupCoordinator.ensure_active_group,
                       GroupCoordinator.ensure_active_group, GroupCoordinator.ensure_coordinator_known,
                       CoordinatorGroupRebalance.perform_group_join, CoordinatorGroupRebalance._send_sync_group_request,
                       GroupCoordinator._heartbeat_routine, GroupCoordinator._do_heartbeat, GroupCoordinator._do_commit_offsets],
            shape="S",
            symbolic_vars="choices: join times, membership event, victim, time, fault kind (every coordinator error code of the menu, drop, timeout) at one of the first JoinGroup/SyncGroup/Heartbeat/OffsetCommit/FindCoordinator requests",
            bounds={"members": n, "assignors": list(asg), "join_versions": list(jv), "event_times": times, "max_faults": mf,
                    "quiet_period_s": 3.0},
            stubs=["AIOKafkaConnection -> SimConn; group coordinator tables of DESIGN Appendix C", "virtual-time event loop"],
            max_seconds=400 if q else 2400, max_paths=200000, twin_max_paths=300))
    return hs
