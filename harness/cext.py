"""Witness replay against the compiled extension, built from /repo's current .pyx sources into a scratch
directory (outside /repo and /verif) and driven in a watchdog subprocess.  It can refute, never confirm."""
import json
import os
import select
import shutil
import subprocess
import tempfile

VERIF = os.path.dirname(os.path.dirname(os.path.abspath(__file__)))
_proc = None
_pid = None


def prepare():
    """called once per check run, before the worker pool is forked"""
    d = tempfile.mkdtemp(prefix="verif-cext-")
    r = subprocess.run([os.path.join(VERIF, "tools", "build_cext.sh"), d], capture_output=True, text=True, timeout=600)
    if r.returncode != 0:
        shutil.rmtree(d, ignore_errors=True)
        os.environ.pop("VERIF_CEXT_DIR", None)
        return None
    os.environ["VERIF_CEXT_DIR"] = d
    return d


def cleanup():
    d = os.environ.pop("VERIF_CEXT_DIR", None)
    if d and os.path.isdir(d) and "verif-cext-" in d:
        shutil.rmtree(d, ignore_errors=True)


def available():
    return bool(os.environ.get("VERIF_CEXT_DIR"))


def _start():
    global _proc, _pid
    d = os.environ["VERIF_CEXT_DIR"]
    env = dict(os.environ)
    env.pop("AIOKAFKA_NO_EXTENSIONS", None)
    env["PYTHONPATH"] = d
    _proc = subprocess.Popen(["/venv/bin/python", os.path.join(VERIF, "tools", "cext_worker.py")], stdin=subprocess.PIPE,
                             stdout=subprocess.PIPE, stderr=subprocess.DEVNULL, env=env, cwd=d, text=True, bufsize=1)
    _pid = os.getpid()
    line = _readline(30)
    if not line or "ready" not in line or d not in line:
        raise RuntimeError("compiled-extension worker did not start from the scratch build: " + str(line))


def _readline(timeout):
    r, _, _ = select.select([_proc.stdout], [], [], timeout)
    if not r:
        return None
    return _proc.stdout.readline()


def call(task, timeout=10.0):
    """returns the worker's answer, {'hang': True} after the watchdog fires, {'crash': code} if it died"""
    global _proc
    if _proc is None or _pid != os.getpid() or _proc.poll() is not None:
        _start()
    try:
        _proc.stdin.write(json.dumps(task) + "\n")
        _proc.stdin.flush()
    except (BrokenPipeError, OSError):
        code = _proc.poll()
        _proc = None
        return {"crash": code}
    line = _readline(timeout)
    if line is None:
        _proc.kill()
        _proc = None
        return {"hang": True}
    if line == "":
        code = _proc.wait()
        _proc = None
        return {"crash": code}
    return json.loads(line)


def decode(data: bytes, timeout=10.0):
    return call({"op": "decode", "data": bytes(data).hex()}, timeout)


def hx(b):
    return None if b is None else bytes(b).hex()
