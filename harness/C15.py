"""C15 — the sticky assignor keeps assignments that need not move."""
from symx import Harness

from aiokafka.coordinator.assignors.sticky.partition_movements import PartitionMovements
from aiokafka.coordinator.assignors.sticky.sticky_assignor import (StickyAssignmentExecutor, StickyAssignorUserDataV1,
                                                                  StickyPartitionAssignor)

from . import assignsim as A


def u1_stickiness(src, max_members, ntopics, max_parts, rounds, vary_order=False):
    parts, subs = A.choose_layout(src, max_members, ntopics, max_parts, allow_no_metadata=False)
    same = src.flag("identical_subscriptions")
    if same:
        first = list(subs.values())[0]
        subs = {m: list(first) for m in subs}
        if vary_order and len(first) > 1:
            # "the same topics" does not say "listed in the same order": members may list them differently
            for m in sorted(subs):
                if src.flag(f"reversed_topic_list_{m}"):
                    subs[m].reverse()
    res = A.run_assign("sticky", parts, subs)
    A.check_validity(src, "sticky", parts, subs, res, tag="round 1: ")
    gen = 1
    for r in range(rounds):
        kind, subs2, gone, new = A.second_round(src, subs, max_new=2, tag=f"r{r}_", vary_order=vary_order and same)
        res2 = A.run_assign("sticky", parts, subs2, previous={m: res[m] for m in res if m in subs2}, generation=gen)
        src.note({"kind": kind, "partitions": parts, "first": res, "second": res2})
        A.check_validity(src, "sticky", parts, subs2, res2, tag=f"round {r + 2}: ")
        A.check_sticky(src, kind, parts, subs, res, subs2, res2, gone, new, tag=f"round {r + 2}: ")
        if r == 0 and kind == "same" and same and len(subs) >= 2:
            # generation conflicts: a member that missed generation 2 re-joins with its generation-1 data;
            # w.r.t. generation 2 it is a new member, so nothing may move between the members of generation 2
            sr = A.stale_rejoin(src, parts, subs, res)
            if sr is not None:
                absent, s2, r2, r3, s3 = sr
                A.check_validity(src, "sticky", parts, s3, r3, tag="stale re-join: ")
                A.check_sticky(src, "plus", parts, s2, r2, s3, r3, set(), {absent}, tag="stale re-join: ")
        subs, res = subs2, res2
        gen += 1


def harnesses(tier):
    q = tier == "quick"
    confs = ([(3, 1, 9, 1, False), (3, 2, 2, 1, False), (2, 2, 3, 2, True)] if q else
             [(4, 2, 4, 1, False), (3, 2, 3, 2, True), (4, 1, 10, 2, False)])
    hs = []
    for mm, nt, mp, rounds, vo in confs:
        hs.append(Harness(
            name=f"U1_stickiness_{mm}m_{nt}t_{mp}p_{rounds}rounds{'_anyorder' if vo else ''}", fn=u1_stickiness,
            params={"max_members": mm, "ntopics": nt, "max_parts": mp, "rounds": rounds, "vary_order": vo},
            functions=[StickyPartitionAssignor.assign, StickyAssignmentExecutor._init_current_assignments,
                       StickyAssignmentExecutor.balance, StickyAssignmentExecutor._perform_reassignments,
                       StickyAssignmentExecutor._populate_sorted_partitions, PartitionMovements.move_partition,
                       StickyPartitionAssignor._metadata, StickyPartitionAssignor.parse_member_metadata],
            shape="U",
            symbolic_vars="finite-domain choices: first-round layout (members, partitions per topic, subscriptions, identical or not), then per round: identical / a non-empty proper subset of members leaves / 1-2 members join (ids sorting before or after the old ones)",
            bounds={"members": f"1..{mm}", "topics": nt, "partitions_per_topic": f"0..{mp}", "rounds": rounds + 1},
            note="exhaustive enumeration of related inputs by the engine's DFS; previous assignments travel through the real StickyAssignorUserDataV1 encoding and the member-metadata wire codec",
            max_seconds=500 if q else 3000, max_paths=5000000, twin_max_paths=3000))
    return hs
