"""Composed bounded runs of the real AIOKafkaConsumer (group-less) on the virtual loop against
simkafka, with partition logs built by the independent reference codec (shared by C03/C08/C13-S1)."""
import asyncio

import aiokafka.errors as E
from aiokafka import AIOKafkaConsumer
from aiokafka.structs import TopicPartition

from env import simkafka, vloop
from specs import refcodec as R

TP0 = TopicPartition("t", 0)


def _rec(off, ts=None, key=None, value=None, headers=None):
    return dict(offset=off, timestamp=1000 + off if ts is None else ts,
                key=(b"k%d" % off) if key is None else key, value=(b"v%d" % off) if value is None else value,
                headers=headers or [])


# log shapes: list of batch descriptors (kind, offsets, extra)
SHAPES = {
    "v2_plain": [("v2", [0, 1, 2]), ("v2", [3, 4])],
    "v2_compaction": [("v2", [0, 2], {"last": 3}), ("v2", [], {"base": 4, "last": 5}), ("v2", [6, 7])],
    "v2_control": [("v2", [0, 1]), ("ctl", 2, {"commit": True, "pid": 7}), ("v2", [3]), ("ctl", 4, {"commit": False, "pid": 8})],
    "v1_mixed": [("v1", [0, 1]), ("v1gz", [2, 3, 4]), ("v2", [5, 6])],
    "v0_wrapper": [("v0", [0]), ("v0gz", [1, 2, 3]), ("v1", [4])],
    "txn_mixed": [("txn", [0, 1], {"pid": 7}), ("v2", [2]), ("ctl", 3, {"commit": False, "pid": 7}),
                  ("txn", [4], {"pid": 8}), ("ctl", 5, {"commit": True, "pid": 8}), ("v2", [6])],
    "txn_open": [("v2", [0]), ("txn", [1, 2], {"pid": 7}), ("v2", [3]), ("txn", [4], {"pid": 8}),
                 ("ctl", 5, {"commit": True, "pid": 8})],
    "txn_same_pid": [("txn", [0, 1], {"pid": 7}), ("ctl", 2, {"commit": False, "pid": 7}),
                     ("txn", [3, 4], {"pid": 7}), ("ctl", 5, {"commit": True, "pid": 7}), ("v2", [6])],
    "gz_v2": [("v2gz", [0, 1, 2]), ("v2", [3])],
    # the smallest legal messages: null key and null value (26 bytes in v0, 34 in v1), alone and in a row
    "legacy_null_records": [("v0n", [0]), ("v0n", [1, 2]), ("v1n", [3]), ("v0", [4])],
}


def fill_log(cluster, tp, shape):
    log = cluster.logs[tp]
    for d in SHAPES[shape]:
        kind, offs = d[0], d[1]
        extra = d[2] if len(d) > 2 else {}
        if kind == "ctl":
            off = offs
            commit = extra["commit"]
            raw = R.encode_v2(off, [dict(offset=off, timestamp=1000 + off, **R.control_record(commit))],
                              transactional=True, control=True, producer_id=extra["pid"], producer_epoch=0)
            log.prefill(raw, off, off, [(off, None, None, (), 0)], control=True, marker="commit" if commit else "abort",
                        transactional=True, pid=extra["pid"])
            continue
        recs = [_rec(o) for o in offs]
        if kind in ("v0n", "v1n"):
            recs = [dict(offset=o, timestamp=1000 + o, key=None, value=None, headers=[]) for o in offs]
            kind = kind[:2]
        stored = [(r["offset"], r["key"], r["value"], tuple(r["headers"]), r["timestamp"]) for r in recs]
        base = extra.get("base", offs[0] if offs else 0)
        last = extra.get("last", offs[-1] if offs else base)
        if kind in ("v2", "txn", "v2gz"):
            raw = R.encode_v2(base, recs, transactional=(kind == "txn"), producer_id=extra.get("pid", -1),
                              producer_epoch=0 if kind == "txn" else -1, base_sequence=0 if kind == "txn" else -1,
                              codec=1 if kind == "v2gz" else 0, last_offset_delta=last - base)
            log.prefill(raw, base, last, stored, transactional=(kind == "txn"), pid=extra.get("pid", -1))
        elif kind in ("v1", "v0"):
            raw = R.encode_legacy(int(kind[1]), recs)
            if kind == "v0":
                stored = [(o, k, v, h, None) for (o, k, v, h, t) in stored]
            # uncompressed legacy messages are one batch each for the fetch path
            for r, st in zip(recs, stored):
                log.prefill(R.encode_legacy(int(kind[1]), [r]), r["offset"], r["offset"], [st], magic=int(kind[1]))
        else:
            magic = int(kind[1])
            raw = R.encode_legacy(magic, recs, compressed=True)
            if magic == 0:
                stored = [(o, k, v, h, None) for (o, k, v, h, t) in stored]
            log.prefill(raw, base, last, stored, magic=magic)


CONSUMER_FAULTS = ["none", "drop_before", "timeout_before", ("error", 6), ("error", 3), ("error", 5), "migrate"]


class ConsumerFaults:
    def __init__(self, src, apis, max_requests, max_faults):
        self.src, self.apis = src, apis
        self.max_requests, self.max_faults = max_requests, max_faults
        self.seen = self.used = 0
        self.enabled = False
        self.log = []

    def __call__(self, cluster, node, req, entry):
        if not self.enabled or req.API_KEY not in self.apis:
            return None
        self.seen += 1
        if self.seen > self.max_requests or self.used >= self.max_faults:
            return None
        menu = CONSUMER_FAULTS if req.API_KEY != 3 else ["none", "drop_before", "timeout_before"]
        f = menu[self.src.choice(f"fault{self.seen}", len(menu))]
        if f == "none":
            return None
        self.used += 1
        self.log.append((self.seen, simkafka.NAMES.get(req.API_KEY), f))
        if f == "migrate":
            for tp, ld in list(cluster.leader.items()):
                if ld == node:
                    cluster.leader[tp] = [n for n in cluster.nodes if n != node][0]
            if req.API_KEY in (1, 2):
                return ("error", 6)
            return None
        return f


class Model:
    """reference reader state for one partition"""

    def __init__(self, log, isolation):
        self.visible = [r[0] for r in log.visible_records(isolation)]
        self.end = log.last_stable_offset if isolation == 1 else log.high_watermark
        self.pos = None
        self.last_returned = None
        self.paused = False

    def expect(self):
        return [o for o in self.visible if o >= self.pos]

    def deliver(self, src, got, what):
        exp = self.expect()
        ok = got == exp[:len(got)]
        src.check(ok, f"{what}: delivered offsets are not the next visible records in order",
                  got=got, expected_prefix=exp[:max(len(got), 1)], position=self.pos)
        if got:
            self.pos = got[-1] + 1
            self.last_returned = got[-1]
        return ok

    def check_position(self, src, p, what):
        lo = self.pos if self.last_returned is None or self.pos > self.last_returned + 1 else self.last_returned + 1
        lo = min(lo, self.pos)
        exp = self.expect()
        hi = exp[0] if exp else self.end
        src.check(p >= (self.last_returned + 1 if self.last_returned is not None and self.last_returned + 1 <= self.pos else 0),
                  f"{what}: position() behind one past the last returned record", position=p)
        src.check(p <= max(hi, self.pos), f"{what}: position() ahead of a visible record that has not been returned",
                  position=p, next_visible=hi)
        if p > self.pos:
            self.pos = p  # the consumer skipped invisible offsets


async def run_program(loop, src, cluster, cfg, program_len, res):
    iso = cfg["isolation"]
    consumer = AIOKafkaConsumer(
        bootstrap_servers="h0:9092", group_id=None, enable_auto_commit=False,
        auto_offset_reset=cfg.get("policy", "earliest"),
        isolation_level="read_committed" if iso == 1 else "read_uncommitted",
        fetch_max_wait_ms=100, request_timeout_ms=1000, retry_backoff_ms=100, check_crcs=True,
        max_poll_records=cfg.get("max_poll_records"))
    res["consumer"] = consumer
    await consumer.start()
    consumer.assign([TP0])
    log = cluster.logs[("t", 0)]
    m = Model(log, iso)
    if src.twin and m.visible:
        m.visible = m.visible[:-1]  # seeded oracle error: the reference reader forgets the last record
    res["model"] = m
    start = cfg.get("start")
    if start is not None:
        consumer.seek(TP0, start)
        m.pos = start
    else:
        m.pos = 0 if cfg.get("policy", "earliest") == "earliest" else m.end
    cfg["faults"].enabled = True
    seek_targets = cfg["seek_targets"]
    ops = ["getone", "getmany", "getmany1", "seek", "pause", "resume", "position"] + list(cfg.get("race_ops", ()))
    trace = []
    raised = []

    def app_error(e, what):
        # the log is well formed and only retriable faults are injected: no error belongs to the application
        raised.append(repr(e))
        src.check(False, f"{what} raised {type(e).__name__} to the application although the log is well formed", error=repr(e)[:200])

    for step in range(program_len):
        if raised:
            break
        op = ops[src.choice(f"op{step}", len(ops))]
        if op == "getone":
            try:
                r = await asyncio.wait_for(consumer.getone(), timeout=3.0)
                got = [r.offset]
            except asyncio.TimeoutError:
                got = []
            except E.KafkaError as e:
                app_error(e, f"step {step} getone")
                break
            trace.append(("getone", got))
            if m.paused:
                src.check(not got, "getone returned a record from a paused partition", got=got)
            else:
                m.deliver(src, got, f"step {step} getone")
                if not got:
                    src.check(not m.expect() or cfg["faults"].used > 0,
                              f"step {step}: getone delivered nothing within 3 s although visible records remain",
                              remaining=m.expect()[:3])
        elif op in ("getmany", "getmany1"):
            mr = 1 if op == "getmany1" else None
            try:
                d = await consumer.getmany(timeout_ms=1500, max_records=mr)
            except E.KafkaError as e:
                app_error(e, f"step {step} {op}")
                break
            got = [r.offset for r in d.get(TP0, [])]
            trace.append((op, got))
            if mr:
                src.check(len(got) <= 1, "getmany(max_records=1) returned more than one record")
            if m.paused:
                src.check(not got, "getmany returned records from a paused partition", got=got)
            else:
                m.deliver(src, got, f"step {step} {op}")
                if not got:
                    src.check(not m.expect() or cfg["faults"].used > 0,
                              f"step {step}: getmany delivered nothing within 1.5 s although visible records remain",
                              remaining=m.expect()[:3])
        elif op == "seek":
            o = seek_targets[src.choice(f"seek{step}", len(seek_targets))]
            consumer.seek(TP0, o)
            m.pos, m.last_returned = o, None
            p = await consumer.position(TP0)
            trace.append(("seek", o, p))
            src.check(p == o, "position() differs from the sought offset right after seek()", sought=o, position=p)
        elif op in ("race_seek", "race_pause", "race_oor_seek"):
            # a second task acts while a getone()/getmany() of the first is blocked on an in-flight fetch
            if op == "race_oor_seek":
                # fetch for an out-of-range position in flight, then a seek to a valid offset
                far = m.end + 50
                consumer.seek(TP0, far)
                m.pos, m.last_returned = far, None
            else:
                o0 = seek_targets[src.choice(f"rs_from{step}", len(seek_targets))]
                consumer.seek(TP0, o0)  # drops buffered data: the next hand-out needs a fetch
                m.pos, m.last_returned = o0, None
            blocked = asyncio.ensure_future(consumer.getmany(timeout_ms=1500, max_records=1) if op != "race_seek"
                                            else consumer.getone())
            delay = [0.0, 0.001, 0.002, 0.003, 0.004, 0.006][src.choice(f"race_delay{step}", 6)]
            await asyncio.sleep(delay)
            if op == "race_pause":
                done_before = blocked.done()
                consumer.pause(TP0)
                m.paused = True
                try:
                    d = await blocked
                except E.KafkaError as e:
                    app_error(e, f"step {step} {op}")
                    break
                got = [r.offset for r in d.get(TP0, [])]
                trace.append((op, o0, delay, done_before, got))
                if done_before:
                    m.deliver(src, got, f"step {step} {op}")
                else:
                    # the call was still blocked when pause() was issued: nothing may be handed out
                    src.check(not got, "getmany returned records from a partition that was paused while the call was blocked",
                              got=got, delay=delay)
            else:
                o = seek_targets[src.choice(f"rs_to{step}", len(seek_targets))]
                if not blocked.done():
                    consumer.seek(TP0, o)
                    m.pos, m.last_returned = o, None
                    sought = True
                else:
                    sought = False
                try:
                    r = await asyncio.wait_for(blocked, timeout=3.0)
                    got = [r.offset] if op == "race_seek" else [x.offset for x in r.get(TP0, [])]
                except asyncio.TimeoutError:
                    got = []
                except E.KafkaError as e:
                    app_error(e, f"step {step} {op}")
                    break
                trace.append((op, delay, o if sought else None, got))
                if op == "race_oor_seek" and not sought:
                    # the out-of-range error was handled before the seek: position reset per policy
                    m.pos = 0
                m.deliver(src, got, f"step {step} {op} (seek must take effect for the very next record)")
        elif op == "pause":
            consumer.pause(TP0)
            m.paused = True
            trace.append(("pause",))
        elif op == "resume":
            consumer.resume(TP0)
            m.paused = False
            trace.append(("resume",))
        else:
            p = await asyncio.wait_for(consumer.position(TP0), timeout=5.0)
            trace.append(("position", p))
            m.check_position(src, p, f"step {step}")
    # delivery continues to the end of the log once faults ceased
    if m.paused:
        consumer.resume(TP0)
        m.paused = False
    rest = []
    for _ in range(12):
        if not m.expect() or raised:
            break
        try:
            d = await consumer.getmany(timeout_ms=1500)
        except E.KafkaError as e:
            app_error(e, "drain getmany")
            break
        got = [r.offset for r in d.get(TP0, [])]
        rest.append(got)
        if not m.deliver(src, got, "drain"):
            break
    src.check(not m.expect() or bool(raised), "delivery does not reach the end of the log after faults ceased",
              remaining=m.expect()[:4], drain=rest[-3:], faults=cfg["faults"].log)
    p = await asyncio.wait_for(consumer.position(TP0), timeout=5.0)
    m.check_position(src, p, "final")
    res["trace"] = trace
    t0 = loop.time()
    try:
        await consumer.stop()
        res["stop_exc"] = None
    except (asyncio.CancelledError, Exception) as e:  # noqa: BLE001  (C19's subject, recorded here)
        res["stop_exc"] = e
    res["stop_took"] = loop.time() - t0
    res["tasks_left"] = vloop.library_tasks(loop)
    res["timers_left"] = loop.live_timers()
    res["conns_open"] = [c for c in cluster.conns if c.connected()]


def run_consumer(src, shape, cfg, program_len, max_fault_requests=6, max_faults=0, cut_choice=True):
    cluster = simkafka.Cluster(nodes=(0, 1), topics={"t": 1}, versions=cfg.get("versions"))
    fill_log(cluster, ("t", 0), shape)
    faults = ConsumerFaults(src, {1, 2, 3}, max_fault_requests, max_faults)
    cluster.fault_fn = faults
    cfg["faults"] = faults
    if cut_choice:
        mode = src.choice("response_cut", 2)  # 0: as many batches as available, 1: one batch per response
        if mode == 1:
            cluster.fetch_cut = lambda c, tp, n: 1
    res = {"cluster": cluster}

    async def main(loop):
        with simkafka.installed(cluster):
            await run_program(loop, src, cluster, cfg, program_len, res)

    try:
        vloop.run(main, max_vtime=600.0)
    except vloop.Deadlock as e:
        res["deadlock"] = str(e)
    return res
