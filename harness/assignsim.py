"""Layouts, real assignor drivers and the oracles B3 (validity, balance) and B4 (stickiness) for C14/C15."""
import itertools

from aiokafka.cluster import ClusterMetadata
from aiokafka.coordinator.assignors.range import RangePartitionAssignor
from aiokafka.coordinator.assignors.roundrobin import RoundRobinPartitionAssignor
from aiokafka.coordinator.assignors.sticky.sticky_assignor import StickyAssignorUserDataV1, StickyPartitionAssignor
from aiokafka.coordinator.protocol import ConsumerProtocolMemberAssignment, ConsumerProtocolMemberMetadata
from aiokafka.protocol.metadata import MetadataResponse_v1
from aiokafka.structs import TopicPartition

ASSIGNORS = {"range": RangePartitionAssignor, "roundrobin": RoundRobinPartitionAssignor, "sticky": StickyPartitionAssignor}
TOPICS = ["ta", "tb", "tc"]
MEMBERS = ["m0", "m1", "m2", "m3"]


def make_cluster(parts):
    """parts: {topic: n or None (no metadata)}"""
    topics = []
    for t, n in parts.items():
        if n is None:
            continue
        topics.append((0, t, False, [(0, p, 0, [0], [0]) for p in range(n)]))
    c = ClusterMetadata()
    c.update_metadata(MetadataResponse_v1([(0, "h", 9092, None)], 0, topics))
    return c


def choose_layout(src, max_members, ntopics, max_parts, allow_no_metadata=True, tag=""):
    """every layout of the bound as finite-domain choices"""
    nm = 1 + src.choice(f"{tag}members", max_members)
    opts = ([None] if allow_no_metadata else []) + list(range(0, max_parts + 1))
    parts = {}
    for t in TOPICS[:ntopics]:
        parts[t] = opts[src.choice(f"{tag}parts_{t}", len(opts))]
    subsets = [s for r in range(1, ntopics + 1) for s in itertools.combinations(TOPICS[:ntopics], r)]
    subs = {}
    for m in MEMBERS[:nm]:
        subs[m] = list(subsets[src.choice(f"{tag}sub_{m}", len(subsets))])
    return parts, subs


def run_assign(name, parts, subs, previous=None, generation=1, via_wire=True):
    """call the real assign(); for sticky the previous assignment travels through the real user-data
    encoding (StickyAssignorUserDataV1 via _metadata) and the member metadata through the wire codec"""
    cls = ASSIGNORS[name]
    cluster = make_cluster(parts)
    members = {}
    for m, topics in subs.items():
        if name == "sticky":
            prev = None
            gen = -1
            if previous is not None and m in previous:
                prev = [TopicPartition(t, p) for (t, p) in sorted(previous[m])]
                gen = generation[m] if isinstance(generation, dict) else generation
            md = cls._metadata(topics, prev, gen)
        else:
            md = cls.metadata(topics)
        if via_wire:
            md = ConsumerProtocolMemberMetadata.decode(md.encode())
        members[m] = md
    out = cls.assign(cluster, members)
    res = {}
    for m, a in out.items():
        if via_wire:
            a = ConsumerProtocolMemberAssignment.decode(a.encode())
        res[m] = [(tp.topic, tp.partition) for tp in a.partitions()]
    return res


def check_validity(src, name, parts, subs, res, tag=""):
    """B3 validity: every partition of every subscribed topic with metadata has exactly one owner, who is
    subscribed to it; nothing else is assigned; every member has an entry"""
    info = dict(assignor=name, partitions=parts, subscriptions=subs, result=res)
    src.check(set(res) == set(subs), tag + "assignment does not have exactly one entry per member", **info)
    owner = {}
    for m, tps in res.items():
        for tp in tps:
            src.check(tp not in owner, tag + f"partition {tp} assigned to two members", **info)
            owner[tp] = m
            src.check(tp[0] in subs.get(m, []), tag + f"partition {tp} assigned to member {m} which is not subscribed to {tp[0]}", **info)
            src.check(parts.get(tp[0]) is not None and 0 <= tp[1] < parts[tp[0]], tag + f"non-existent partition {tp} assigned", **info)
    subscribed = {t for ts in subs.values() for t in ts}
    for t in subscribed:
        if parts.get(t) is None:
            continue
        for p in range(parts[t]):
            ok = (t, p) in owner
            if src.twin and tag.startswith("user data"):
                ok = False  # seeded oracle error for harnesses whose balance twin is rarely reachable
            src.check(ok, tag + f"partition {(t, p)} of a subscribed topic has no owner", **info)
    return owner


def check_balance(src, name, parts, subs, res, tag=""):
    info = dict(assignor=name, partitions=parts, subscriptions=subs, result=res)
    if name == "roundrobin":
        same = len({tuple(sorted(v)) for v in subs.values()}) == 1
        if same:
            sizes = [len(v) for v in res.values()]
            src.check(max(sizes) - min(sizes) <= (0 if src.twin and max(sizes) != min(sizes) else 1),
                      tag + "round-robin with identical subscriptions: member loads differ by more than one", **info)
    if name == "range":
        for t in {t for ts in subs.values() for t in ts}:
            if parts.get(t) is None:
                continue
            sizes = [sum(1 for tp in res[m] if tp[0] == t) for m in subs if t in subs[m]]
            src.check(max(sizes) - min(sizes) <= (0 if src.twin and max(sizes) != min(sizes) else 1),
                      tag + f"range: loads within topic {t} differ by more than one", **info)
            # contiguous slices in member order, first members get the extra one
            ms = sorted(m for m in subs if t in subs[m])
            flat = [p for m in ms for (tt, p) in sorted(res[m]) if tt == t]
            src.check(flat == list(range(parts[t])), tag + f"range: slices of topic {t} are not contiguous in member order", **info)
            szs = [sum(1 for tp in res[m] if tp[0] == t) for m in ms]
            src.check(szs == sorted(szs, reverse=True), tag + f"range: the extra partitions of topic {t} do not go to the first members", **info)
    if name == "sticky":
        # KIP-54: no member could take a partition it is subscribed to from a member holding >= 2 more
        for m1 in subs:
            for m2 in subs:
                if m1 == m2:
                    continue
                if len(res[m2]) >= len(res[m1]) + 2:
                    movable = [tp for tp in res[m2] if tp[0] in subs[m1]]
                    ok = not movable
                    if src.twin:
                        ok = not ok
                    src.check(ok, tag + f"sticky: {m1} ({len(res[m1])} partitions) could take {movable[:1]} from {m2} ({len(res[m2])} partitions)", **info)


def second_round(src, subs, max_new=2, tag="", vary_order=False):
    """(a) identical, (b) minus a non-empty proper subset of members, (c) plus 1..max_new new members
    (vary_order: a new member may list the same topics in reverse order)"""
    kind = ["same", "minus", "plus"][src.choice(f"{tag}round2", 3)]
    ms = sorted(subs)
    if kind == "minus":
        if len(ms) < 2:
            return "same", dict(subs), set(), set()
        subsets = [set(s) for r in range(1, len(ms)) for s in itertools.combinations(ms, r)]
        gone = subsets[src.choice(f"{tag}departed", len(subsets))]
        return kind, {m: t for m, t in subs.items() if m not in gone}, gone, set()
    if kind == "plus":
        k = 1 + src.choice(f"{tag}new_members", max_new)
        base = ["n0", "n1"] if src.choice(f"{tag}new_ids_sort_last", 2) else ["a0", "a1"]  # ids sorting after / before the old ones
        new = set(base[:k])
        s2 = dict(subs)
        anysub = list(subs.values())[0]
        for n in sorted(new):
            s2[n] = list(anysub)
            if vary_order and len(anysub) > 1 and src.flag(f"{tag}reversed_topic_list_{n}"):
                s2[n].reverse()
        return kind, s2, set(), new
    return kind, dict(subs), set(), set()


def check_sticky(src, kind, parts, subs1, res1, subs2, res2, gone, new, tag=""):
    """B4, stated partition by partition"""
    info = dict(kind=kind, partitions=parts, subscriptions=subs1, first=res1, second_subscriptions=subs2, second=res2)
    identical_subs = len({tuple(sorted(v)) for v in subs1.values()} | {tuple(sorted(v)) for v in subs2.values()}) == 1
    if kind == "same":
        ok = {m: sorted(v) for m, v in res2.items()} == {m: sorted(v) for m, v in res1.items()}
        if src.twin:
            ok = not ok
        src.check(ok, tag + "sticky: unchanged membership, subscriptions and partitions but the assignment changed", **info)
        return
    if not identical_subs:
        return
    owner1 = {tp: m for m, tps in res1.items() for tp in tps}
    owner2 = {tp: m for m, tps in res2.items() for tp in tps}
    if kind == "minus":
        for m in subs2:
            lost = [tp for tp in res1[m] if tp not in res2[m]]
            ok = not lost
            if src.twin:
                ok = not ok
            src.check(ok, tag + f"sticky: surviving member {m} lost {lost[:2]} when members {sorted(gone)} departed", **info)
    if kind == "plus":
        for tp, m2 in owner2.items():
            m1 = owner1.get(tp)
            if m1 is None:
                continue
            ok = m2 in new or m2 == m1
            if src.twin:
                ok = not ok
            src.check(ok, tag + f"sticky: partition {tp} moved between old members ({m1} -> {m2}) when {sorted(new)} joined", **info)


def stale_rejoin(src, parts, subs, res1, tag=""):
    """Three generations: round 1 (generation 1); round 2 without one member (generation 2); round 3 where
    that member re-joins still reporting its generation-1 assignment while the others report theirs of
    generation 2.  Returns (absent member, round-2 result, round-3 subscriptions, round-3 result)."""
    ms = sorted(subs)
    if len(ms) < 2:
        return None
    absent = ms[src.choice(f"{tag}absent_member", len(ms))]
    subs2 = {m: t for m, t in subs.items() if m != absent}
    # optionally a replacement member (no previous data) joins in the generation the absent one misses
    repl = [None, "a0", "n0"][src.choice(f"{tag}replacement_joins", 3)]
    if repl is not None:
        subs2[repl] = list(subs[absent])
    res2 = run_assign("sticky", parts, subs2, previous={m: res1[m] for m in subs2 if m in res1}, generation=1)
    prev3 = {m: res2[m] for m in subs2}
    prev3[absent] = res1[absent]
    gens = {m: 2 for m in subs2}
    gens[absent] = 1
    subs3 = dict(subs2)
    subs3[absent] = list(subs[absent])
    res3 = run_assign("sticky", parts, subs3, previous=prev3, generation=gens)
    return absent, subs2, res2, res3, subs3
