"""C04 — group runs of real AIOKafkaConsumer members against the simulated coordinator."""
from symx import Harness

from aiokafka.consumer.consumer import AIOKafkaConsumer
from aiokafka.consumer.fetcher import Fetcher
from aiokafka.consumer.group_coordinator import CoordinatorGroupRebalance, GroupCoordinator
from aiokafka.consumer.subscription_state import SubscriptionState

from . import groupsim
from . import grouporacles as GO

PROP = "C04"


def s1_group(src, nmembers, times, max_faults):
    cfg = {"member": {"auto_commit": True, "auto_commit_interval_ms": 150, "assignors": ["roundrobin"]},
           "vary_leaderless": True, "extra_events": ("cut_off_from_coordinator",), "max_records_per_partition": 40}
    scenario, plan = GO.standard_scenario(src, cfg, nmembers, times, quiet=2.5,
                                          fault_apis=(8, 9), max_fault_requests=4, max_faults=max_faults)
    res = groupsim.run_group(src, cfg, scenario)
    run = res["run"]
    src.note({"plan": GO._plan(run) if hasattr(run, "plan") else None})
    src.check("deadlock" not in res, "group run did not finish in bounded virtual time: " + str(res.get("deadlock")), plan=GO._plan(run))
    if "deadlock" in res or not hasattr(run, "quiet_to"):
        return
    GO.check_c04(src, run, res)


def u1_committable(src, nbatches):
    """What gets committed is all_consumed_offsets(): after every hand-out step it never passes a visible
    record that has not been handed out (both isolation levels, transactional logs, compaction)."""
    from aiokafka.consumer.fetcher import READ_COMMITTED, READ_UNCOMMITTED
    from . import fetchmodel as FM
    iso = [READ_COMMITTED, READ_UNCOMMITTED][src.choice("isolation", 2)]
    style = ["getall", "getone", "getall1"][src.choice("style", 3)]
    log = FM.build_log(src, nbatches, 2, max_records=2, transactional=True)
    res = FM.run_fetch(src, log, iso, "getone" if style == "getone" else "getall", 1 if style == "getall1" else None)
    FM.check_delivery(src, log, iso, res, prefix="committable offset: ")


def u2_committable_after_error(src, nbatches):
    """the same clause when a checksum failure in the k-th batch makes a getone()/getmany() call raise
    half-way through a response: whatever happens to the buffer afterwards, nothing undelivered is passed"""
    from aiokafka.consumer.fetcher import READ_COMMITTED, READ_UNCOMMITTED
    from . import fetchmodel as FM
    iso = [READ_COMMITTED, READ_UNCOMMITTED][src.choice("isolation", 2)]
    style = ["getall", "getone", "getall1"][src.choice("style", 3)]
    log = FM.build_log(src, nbatches, 2, max_records=2, transactional=True)
    bad = src.choice("batch_with_bad_checksum", nbatches)
    res = FM.run_fetch(src, log, iso, "getone" if style == "getone" else "getall", 1 if style == "getall1" else None, corrupt_batch=bad)
    src.note({"raised": res.get("raised"), "delivered": len(res["delivered"])})
    FM.check_committable(src, log, iso, res, prefix="after a failed call: ")


def s2_handover_at_offset_zero(src):
    """A member owns an empty partition, commits its position (0) and goes; records arrive; the next owner is
    given committed offset 0 and must start there whatever its reset policy says (0 is an offset, not 'none')."""
    import asyncio
    import aiokafka.errors as E
    from aiokafka.structs import TopicPartition
    from env import simkafka, vloop
    policy = ["latest", "earliest", "none"][src.choice("policy_of_the_next_owner", 3)]
    how = ["stop", "commit_then_crash"][src.choice("first_owner_goes_by", 2)]
    nrec = [1, 3][src.choice("records_arriving_in_between", 2)]
    cluster = simkafka.Cluster(nodes=(0, 1), topics={"t": 1})
    cluster.blackhole = set()
    res = {"delivered": []}
    tp = TopicPartition("t", 0)

    def mk(cid, pol):
        return AIOKafkaConsumer(bootstrap_servers="h0:9092", group_id="g", client_id=cid, enable_auto_commit=False,
                                auto_offset_reset=pol, fetch_max_wait_ms=50, request_timeout_ms=1000, retry_backoff_ms=20,
                                session_timeout_ms=600, heartbeat_interval_ms=100, rebalance_timeout_ms=600)

    async def main(loop):
        with simkafka.installed(cluster):
            a = mk("A", "latest")
            a.subscribe(["t"])
            await a.start()
            try:
                await asyncio.wait_for(a.getone(), timeout=0.3)
            except asyncio.TimeoutError:
                pass
            res["a_position"] = await a.position(tp)
            await a.commit()
            if how == "stop":
                await a.stop()
            else:
                cluster.blackhole.add("A")
                for c in list(cluster.conns):
                    if c.client_id == "A" and c.connected():
                        c.close(reason="crash")
            for _ in range(nrec):
                GO.append_record(cluster, ("t", 0))
            await asyncio.sleep(1.0 if how != "stop" else 0.05)
            b = mk("B", policy)
            b.subscribe(["t"])
            await b.start()
            t_end = loop.time() + 2.5
            try:
                while loop.time() < t_end and len(res["delivered"]) < nrec:
                    batch = await b.getmany(timeout_ms=100)
                    for _, recs in batch.items():
                        res["delivered"].extend(r.offset for r in recs)
            except E.KafkaError as e:
                res["exc"] = type(e).__name__
            res["given"] = [x["reply_obj"] for x in cluster.arrivals if x["req"]["api"] == "OffsetFetch" and x["client"] == "B" and x["reply_obj"] is not None]
            for c in (b,) + ((a,) if how != "stop" else ()):
                try:
                    await asyncio.wait_for(c.stop(), timeout=10)
                except (asyncio.TimeoutError, asyncio.CancelledError, Exception):  # noqa: BLE001
                    pass

    try:
        vloop.run(main, max_vtime=300)
    except vloop.Deadlock as e:
        res["deadlock"] = str(e)
    stored = cluster.group("g").offsets.get(("t", 0), (None, ""))[0]
    info = dict(policy=policy, first_owner_goes_by=how, records=nrec, committed_in_group=stored, delivered=res["delivered"], exc=res.get("exc"))
    src.note(info)
    src.check("deadlock" not in res, "consumers did not settle: " + str(res.get("deadlock")), **info)
    if stored != 0:
        return  # the history this harness is about did not come about
    want = list(range(nrec))
    if src.twin:
        want = want[1:]
    src.check("exc" not in res, f"the next owner got {res.get('exc')} although the group has a committed offset (0) for the partition", **info)
    src.check(res["delivered"] == want, f"the next owner was given committed offset 0 but delivered {res['delivered']} instead of {want}: "
              "records between the commit point and its start position are lost for the group", **info)


def s3_commit_after_superseded_fetch(src):
    """a fetch for a position that is no longer current (the application has sought elsewhere meanwhile) is answered
    with an error: whatever the consumer does with that answer, commit() afterwards stores only what was delivered"""
    import asyncio
    import aiokafka.errors as E
    from aiokafka.structs import TopicPartition
    from env import simkafka, vloop
    policy = ["latest", "earliest"][src.choice("policy", 2)]
    delay = [0.0, 0.001, 0.002, 0.003, 0.005][src.choice("second_seek_after", 5)]
    back_to = [3, 5][src.choice("seek_back_to", 2)]
    cluster = simkafka.Cluster(nodes=(0, 1), topics={"t": 1})
    for _ in range(10):
        GO.append_record(cluster, ("t", 0))
    res = {"got": []}
    tp = TopicPartition("t", 0)

    async def main(loop):
        with simkafka.installed(cluster):
            c = AIOKafkaConsumer(bootstrap_servers="h0:9092", group_id="g", enable_auto_commit=False, auto_offset_reset=policy,
                                 fetch_max_wait_ms=50, request_timeout_ms=1000, retry_backoff_ms=20,
                                 session_timeout_ms=3000, heartbeat_interval_ms=500)
            c.subscribe(["t"])
            await c.start()
            try:
                await asyncio.wait_for(c.getmany(timeout_ms=100), 2)
                c.seek(tp, 2)
                await asyncio.wait_for(c.getmany(timeout_ms=100, max_records=1), 2)
                c.seek(tp, 60)        # beyond the log end: the fetch for it will be answered OFFSET_OUT_OF_RANGE
                blocked = asyncio.ensure_future(c.getmany(timeout_ms=300, max_records=2))
                await asyncio.sleep(delay)
                sought = not blocked.done()
                if sought:
                    c.seek(tp, back_to)   # the application changes its mind before that answer arrives
                res["sought"] = sought
                t_end = loop.time() + 1.0
                first = await blocked
                res["got"] += [r.offset for rs in first.values() for r in rs]
                while loop.time() < t_end and len(res["got"]) < 2:
                    b = await c.getmany(timeout_ms=100, max_records=2)
                    res["got"] += [r.offset for rs in b.values() for r in rs]
                res["position"] = await asyncio.wait_for(c.position(tp), 3)
                await c.commit()
            except E.KafkaError as e:
                res["exc"] = repr(e)
            res["committed"] = cluster.group("g").offsets.get(("t", 0), (None, ""))[0]
            try:
                await asyncio.wait_for(c.stop(), 10)
            except (asyncio.TimeoutError, asyncio.CancelledError, Exception):  # noqa: BLE001
                pass

    try:
        vloop.run(main, max_vtime=120)
    except vloop.Deadlock as e:
        res["deadlock"] = str(e)
    info = dict(policy=policy, second_seek_after=delay, seek_back_to=back_to, observed={k: v for k, v in res.items()})
    src.note(info)
    src.check("deadlock" not in res, "consumer did not settle: " + str(res.get("deadlock")), **info)
    if not res.get("sought") or "exc" in res:
        return  # the out-of-range answer won the race (handled per policy) or was raised: not the history looked at here
    got, committed = res["got"], res.get("committed")
    want_next = (got[-1] + 1) if got else back_to
    if src.twin:
        want_next -= 1
    src.check(got == list(range(back_to, back_to + len(got))), f"after seek({back_to}) the records delivered are {got}", **info)
    src.check(committed is not None and committed <= want_next,
              f"commit() stored offset {committed} although records from {want_next} on were never handed to the application", **info)


def harnesses(tier):
    q = tier == "quick"
    return _u1(tier) + _u2(tier) + _s2(tier) + _s3(tier) + _s1(tier)


def _s3(tier):
    from aiokafka.consumer.fetcher import Fetcher
    return [Harness(
        name="S3_commit_after_superseded_fetch", fn=s3_commit_after_superseded_fetch,
        functions=[Fetcher._proc_fetch_request, GroupCoordinator.commit_offsets], shape="S",
        symbolic_vars="choices: reset policy, when the second seek lands relative to the out-of-range fetch (5 delays), where it seeks back to",
        bounds={"records": 10, "partitions": 1}, stubs=["SimConn broker + group coordinator model", "virtual-time loop"],
        max_seconds=300, twin_max_paths=100)]


def _s2(tier):
    from aiokafka.consumer.fetcher import Fetcher
    return [Harness(
        name="S2_handover_at_offset_zero", fn=s2_handover_at_offset_zero,
        functions=[Fetcher._update_fetch_positions, GroupCoordinator._do_fetch_commit_offsets], shape="S",
        symbolic_vars="choices: reset policy of the next owner, how the first owner goes (stop / commit then crash), records arriving in between",
        bounds={"members": 2, "partitions": 1, "records": "1 or 3"},
        stubs=["SimConn broker + group coordinator model", "virtual-time loop"], max_seconds=300, twin_max_paths=100)]


def _u2(tier):
    from aiokafka.consumer.fetcher import FetchResult, PartitionRecords
    hs = []
    for nb in ([2] if tier == "quick" else [2, 3]):
        hs.append(Harness(
            name=f"U2_committable_after_error_{nb}batches", fn=u2_committable_after_error, params={"nbatches": nb},
            functions=[FetchResult.getall, FetchResult.getone, FetchResult.check_assignment, FetchResult.has_more,
                       FetchResult._update_position, PartitionRecords._unpack_records],
            shape="U",
            symbolic_vars="all offsets as unbounded z3 Ints; batch kinds, isolation level, retrieval style and which batch fails its checksum as choices",
            bounds={"batches": nb, "records_per_batch": "0..2"},
            assumptions=["as C08-U1 (a)-(d)"], stubs=["record batches replaced by stub objects; one of them reports an invalid checksum"],
            max_seconds=300 if tier == "quick" else 1500, budget=(900 if nb == 3 else 0), max_paths=5000000, twin_max_paths=2000))
    return hs


def _u1(tier):
    from aiokafka.consumer.fetcher import FetchResult, PartitionRecords
    from aiokafka.consumer.subscription_state import Assignment, TopicPartitionState
    hs = []
    for nb in ([1, 2] if tier == "quick" else [1, 2, 3]):
        hs.append(Harness(
            name=f"U1_committable_{nb}batches", fn=u1_committable, params={"nbatches": nb},
            functions=[Assignment.all_consumed_offsets, TopicPartitionState.consumed_to, FetchResult._update_position,
                       FetchResult.getone, FetchResult.getall, PartitionRecords._unpack_records],
            shape="U", symbolic_vars="all offsets as unbounded z3 Ints; batch kinds, outcomes, isolation, retrieval style as choices",
            bounds={"batches": nb, "producers": 2, "records_per_batch": "0..2"},
            assumptions=["log well-formedness (a)-(d) of DESIGN C08-U1"], stubs=["record batches replaced by stub objects"],
            max_seconds=300))
    return hs


def _s1(tier):
    q = tier == "quick"
    confs = [(2, [0.05, 0.3, 0.62], 0), (2, [0.3], 1)] if q else [(2, [0.05, 0.2, 0.3, 0.45, 0.62, 0.9], 1), (3, [0.05, 0.3, 0.62], 1)]
    hs = []
    for n, times, mf in confs:
        hs.append(Harness(
            name=f"S1_group_{n}members_{len(times)}times_{mf}faults", fn=s1_group,
            params={"nmembers": n, "times": times, "max_faults": mf},
            functions=[GroupCoordinator._maybe_do_autocommit, GroupCoordinator._on_join_prepare, GroupCoordinator._do_commit_offsets,
                       GroupCoordinator.commit_offsets, GroupCoordinator._do_fetch_commit_offsets,
                       GroupCoordinator._maybe_refresh_commit_offsets, Fetcher._update_fetch_positions, AIOKafkaConsumer.getmany],
            shape="S",
            symbolic_vars="choices: join times of the other members, membership event (none/stop/crash), victim and time, listener delay, one OffsetCommit/OffsetFetch fault (error code, drop, timeout) at one of the first requests",
            bounds={"members": n, "partitions": 2, "event_times": times, "max_faults": mf, "fault_menu": [str(f) for f in GO.COORD_FAULTS]},
            stubs=["AIOKafkaConnection -> SimConn; group coordinator tables of DESIGN Appendix C", "virtual-time event loop"],
            max_seconds=400 if q else 2400, max_paths=200000, twin_max_paths=300))
    return hs
