"""C04 — group runs of real AIOKafkaConsumer members against the simulated coordinator."""
from symx import Harness

from aiokafka.consumer.consumer import AIOKafkaConsumer
from aiokafka.consumer.fetcher import Fetcher
from aiokafka.consumer.group_coordinator import CoordinatorGroupRebalance, GroupCoordinator
from aiokafka.consumer.subscription_state import SubscriptionState

from . import groupsim
from . import grouporacles as GO

PROP = "C04"


def s1_group(src, nmembers, times, max_faults):
    cfg = {"member": {"auto_commit": True, "auto_commit_interval_ms": 150, "assignors": ["roundrobin"]},
           "vary_leaderless": True}
    scenario, plan = GO.standard_scenario(src, cfg, nmembers, times, quiet=2.5,
                                          fault_apis=(8, 9), max_fault_requests=4, max_faults=max_faults)
    res = groupsim.run_group(src, cfg, scenario)
    run = res["run"]
    src.note({"plan": GO._plan(run) if hasattr(run, "plan") else None})
    src.check("deadlock" not in res, "group run did not finish in bounded virtual time: " + str(res.get("deadlock")), plan=GO._plan(run))
    if "deadlock" in res or not hasattr(run, "quiet_to"):
        return
    GO.check_c04(src, run, res)


def u1_committable(src, nbatches):
    """What gets committed is all_consumed_offsets(): after every hand-out step it never passes a visible
    record that has not been handed out (both isolation levels, transactional logs, compaction)."""
    from aiokafka.consumer.fetcher import READ_COMMITTED, READ_UNCOMMITTED
    from . import fetchmodel as FM
    iso = [READ_COMMITTED, READ_UNCOMMITTED][src.choice("isolation", 2)]
    style = ["getall", "getone", "getall1"][src.choice("style", 3)]
    log = FM.build_log(src, nbatches, 2, max_records=2, transactional=True)
    res = FM.run_fetch(src, log, iso, "getone" if style == "getone" else "getall", 1 if style == "getall1" else None)
    FM.check_delivery(src, log, iso, res, prefix="committable offset: ")


def harnesses(tier):
    q = tier == "quick"
    return _u1(tier) + _s1(tier)


def _u1(tier):
    from aiokafka.consumer.fetcher import FetchResult, PartitionRecords
    from aiokafka.consumer.subscription_state import Assignment, TopicPartitionState
    hs = []
    for nb in ([1, 2] if tier == "quick" else [1, 2, 3]):
        hs.append(Harness(
            name=f"U1_committable_{nb}batches", fn=u1_committable, params={"nbatches": nb},
            functions=[Assignment.all_consumed_offsets, TopicPartitionState.consumed_to, FetchResult._update_position,
                       FetchResult.getone, FetchResult.getall, PartitionRecords._unpack_records],
            shape="U", symbolic_vars="all offsets as unbounded z3 Ints; batch kinds, outcomes, isolation, retrieval style as choices",
            bounds={"batches": nb, "producers": 2, "records_per_batch": "0..2"},
            assumptions=["log well-formedness (a)-(d) of DESIGN C08-U1"], stubs=["record batches replaced by stub objects"],
            max_seconds=300))
    return hs


def _s1(tier):
    q = tier == "quick"
    confs = [(2, [0.05, 0.3, 0.62], 0), (2, [0.3], 1)] if q else [(2, [0.05, 0.2, 0.3, 0.45, 0.62, 0.9], 1), (3, [0.05, 0.3, 0.62], 1)]
    hs = []
    for n, times, mf in confs:
        hs.append(Harness(
            name=f"S1_group_{n}members_{len(times)}times_{mf}faults", fn=s1_group,
            params={"nmembers": n, "times": times, "max_faults": mf},
            functions=[GroupCoordinator._maybe_do_autocommit, GroupCoordinator._on_join_prepare, GroupCoordinator._do_commit_offsets,
                       GroupCoordinator.commit_offsets, GroupCoordinator._do_fetch_commit_offsets,
                       GroupCoordinator._maybe_refresh_commit_offsets, Fetcher._update_fetch_positions, AIOKafkaConsumer.getmany],
            shape="S",
            symbolic_vars="choices: join times of the other members, membership event (none/stop/crash), victim and time, listener delay, one OffsetCommit/OffsetFetch fault (error code, drop, timeout) at one of the first requests",
            bounds={"members": n, "partitions": 2, "event_times": times, "max_faults": mf, "fault_menu": [str(f) for f in GO.COORD_FAULTS]},
            stubs=["AIOKafkaConnection -> SimConn; group coordinator tables of DESIGN Appendix C", "virtual-time event loop"],
            max_seconds=400 if q else 2400, max_paths=200000, twin_max_paths=300))
    return hs
