"""C02 — every send future resolves once, with the record's true coordinates."""
import asyncio

from symx import Harness, s_and

from aiokafka.errors import KafkaTimeoutError, NotLeaderForPartitionError
from aiokafka.producer.message_accumulator import MessageBatch
from aiokafka.structs import TopicPartition

from .common import in_loop

TP = TopicPartition("topic", 3)


class _Meta:
    def __init__(self, offset, timestamp):
        self.offset = offset
        self.timestamp = timestamp
        self.crc = None
        self.size = 10


class StubBuilder:
    """BatchBuilder's interface; hands back metadata carrying the (symbolic) timestamp and the relative
    offset.  The real record builder is C09's subject (it insists on machine ints)."""

    def __init__(self):
        self.n = 0
        self._closed = False

    def append(self, *, timestamp, key, value, headers=()):
        m = _Meta(self.n, timestamp)
        self.n += 1
        return m

    def record_count(self):
        return self.n

    def closed(self):
        return self._closed

    def close(self):
        self._closed = True


def u1_done_coordinates(src, nrec):
    ts = [src.zint(f"user_ts{i}", 0) for i in range(nrec)]
    base = src.zint("base_offset", -1)  # -1: the broker did not say where the batch is (acknowledged duplicate)
    unknown_offset = bool(base == -1)
    broker_ts_kind = src.choice("broker_timestamp", 2)  # 0: -1 (CreateTime), 1: LogAppendTime value
    broker_ts = -1 if broker_ts_kind == 0 else src.zint("log_append_time", 0)
    lso = None if src.flag("no_log_start_offset") else src.zint("log_start_offset", 0)
    cancelled = src.choice("cancelled_mask", 1 << nrec)
    out = {}

    def run():
        b = MessageBatch(TP, StubBuilder(), 10, 0)
        futs = [b.append(b"k%d" % i, b"v", ts[i]) for i in range(nrec)]
        for i, f in enumerate(futs):
            if cancelled >> i & 1:
                f.cancel()
        try:
            b.done(base, broker_ts, lso)
            out["exc"] = None
        except Exception as e:  # noqa: BLE001
            out["exc"] = e
        out["futs"] = futs
        out["batch_future"] = b.future

    in_loop(run)
    src.check(out["exc"] is None or not isinstance(out["exc"], asyncio.InvalidStateError),
              "done() raised InvalidStateError (a future resolved twice)")
    if out["exc"] is not None and not isinstance(out["exc"], asyncio.InvalidStateError):
        raise out["exc"]
    for i, f in enumerate(out["futs"]):
        if cancelled >> i & 1:
            src.check(f.cancelled(), f"cancelled future {i} changed state")
            continue
        src.check(f.done() and f.exception() is None, f"future of record {i} not resolved by done()")
        if not f.done() or f.exception() is not None:
            continue
        md = f.result()
        src.check(md.topic == TP.topic and md.partition == TP.partition, "wrong topic/partition in RecordMetadata")
        if unknown_offset:
            src.check(md.offset == -1 - (1 if src.twin else 0),
                      f"record {i}: the broker reported no offset (-1) but the result names offset {i - 1}, a coordinate of some other record")
        else:
            src.check(md.offset == base + i + (1 if src.twin else 0), f"record {i}: offset != base_offset + relative offset")
        if broker_ts_kind == 0:
            src.check(md.timestamp == ts[i], f"record {i}: CreateTime reply but timestamp is not the record's own timestamp")
            src.check(md.timestamp_type == 0, "timestamp_type should be CreateTime (0)")
        else:
            src.check(md.timestamp == broker_ts, f"record {i}: LogAppendTime reply but timestamp is not the broker's")
            src.check(md.timestamp_type == 1, "timestamp_type should be LogAppendTime (1)")
        if lso is None:
            src.check(md.log_start_offset is None, "log_start_offset invented")
        else:
            src.check(md.log_start_offset == lso, "log_start_offset not propagated")
    bf = out["batch_future"]
    src.check(bf.done() and bf.exception() is None and bf.result().offset == base, "batch future not resolved with the base offset")


def u3_all_resolved(src, nrec):
    """done / done_noack / failure from a state where a subset of futures is already cancelled or
    resolved: every outstanding future gets exactly one result, none is left pending, nothing raises."""
    how = src.choice("how", 4)  # 0 done, 1 done_noack, 2 failure, 3 failure twice / done after failure
    pre = [src.choice(f"pre{i}", 2) for i in range(nrec)]  # 0 pending, 1 cancelled by the user
    batch_pre = 0  # the batch future is never exposed unshielded, the user cannot cancel it
    out = {}

    def run():
        b = MessageBatch(TP, StubBuilder(), 10, 0)
        futs = [b.append(b"k", b"v", 5) for i in range(nrec)]
        for f, p in zip(futs, pre):
            if p:
                f.cancel()
        if batch_pre:
            b.future.cancel()
        err = None
        try:
            if how == 0:
                b.done(7, -1, None)
            elif how == 1:
                b.done_noack()
            elif how == 2:
                b.failure(NotLeaderForPartitionError())
            else:
                b.failure(KafkaTimeoutError())
                b.failure(NotLeaderForPartitionError())
                b.done(7, -1, None)
        except Exception as e:  # noqa: BLE001
            err = e
        out.update(futs=futs, err=err, batch=b)

    in_loop(run)
    src.check(out["err"] is None, f"resolving the batch raised {type(out['err']).__name__}")
    for i, f in enumerate(out["futs"]):
        src.check(f.done() != src.twin, f"future {i} left pending")
        if not f.done() or pre[i]:
            continue
        if how == 0:
            src.check(f.exception() is None and f.result().offset == 7 + i, "done(): wrong result")
        elif how == 1:
            src.check(f.exception() is None and f.result() is None, "acks=0: future must resolve without metadata")
        elif how == 2:
            src.check(isinstance(f.exception(), NotLeaderForPartitionError), "failure(): wrong exception")
        else:
            src.check(isinstance(f.exception(), KafkaTimeoutError), "first failure must stick (resolved exactly once)")
    src.check(out["batch"].future.done(), "batch future left pending")


def harnesses(tier):
    q = tier == "quick"
    hs = []
    for n in ([1, 2, 3] if q else [1, 2, 3, 4]):
        hs.append(Harness(name=f"U1_done_coordinates_{n}rec", fn=u1_done_coordinates, params={"nrec": n},
                          functions=[MessageBatch.done, MessageBatch.append], shape="U",
                          symbolic_vars="user timestamps, base offset, broker timestamp, log start offset (unbounded z3 Ints); which futures were cancelled by the user (choice)",
                          bounds={"records": n}, stubs=["BatchBuilder replaced by a recording stub with the same interface"]))
        hs.append(Harness(name=f"U3_all_resolved_{n}rec", fn=u3_all_resolved, params={"nrec": n},
                          functions=[MessageBatch.done, MessageBatch.done_noack, MessageBatch.failure], shape="U",
                          symbolic_vars="resolution path and pre-cancelled subset (choices)", bounds={"records": n}))
    return hs


# ------------------------------------------------------------------------------------------
# S1: every future resolved; results name the record's true coordinates (shared producer run)

from . import prodsim  # noqa: E402
from .C01 import produce_config  # noqa: E402

PRODUCE_VERSIONS = [(0, 7), (0, 0), (0, 1), (0, 2), (0, 5)]


def s1_futures(src, tasks_spec, max_requests, max_faults):
    cfg = produce_config(src, allow_acks0=True)
    cfg["log_append_time"] = src.flag("log_append_time")
    cfg["explicit_ts"] = src.flag("explicit_timestamps")
    pv = PRODUCE_VERSIONS[src.choice("produce_versions", len(PRODUCE_VERSIONS))]
    if cfg["idempotent"] and pv[1] < 3:
        pv = (0, 7)  # idempotent producers need v3+ (IncompatibleBrokerVersion otherwise)
    cfg["versions"] = {0: pv}
    cfg["finish"] = ["flush_stop", "stop"][src.choice("finish", 2)]
    total = sum(len(x) for x in tasks_spec)
    k = src.choice("stop_after_accepted", total + 1)
    if k < total:
        cfg["stop_after_accepted"] = k  # stop()/flush() issued mid-run, sender tasks still active
    res = prodsim.run_producer(src, cfg, tasks_spec, prodsim.RETRIABLE_MENU, max_requests, max_faults)
    c = res["cluster"]
    faults = res["plan"].log
    src.note({"cfg": {k: v for k, v in cfg.items()}, "faults": faults})
    src.check("deadlock" not in res, "flush()/stop() did not return in bounded virtual time: " + str(res.get("deadlock")), faults=faults, cfg=str(cfg))
    if "sends" not in res or "deadlock" in res:
        return
    accepted = [s for s in res["sends"] if s["fut"] is not None]
    # a send() that raised (e.g. KafkaTimeoutError while the batch queue is full) was not accepted
    if cfg["finish"] == "flush_stop":
        src.check(not res["pending_after_flush"], "flush() returned while an accepted record was unresolved", faults=faults, cfg=str(cfg))
    src.check(not res["pending_after_stop"], "stop() returned while an accepted record was unresolved", faults=faults, cfg=str(cfg))
    src.check(not res.get("late_accepted"), "send() accepted a record after stop() had returned", cfg=str(cfg))
    for s_ in accepted:
        src.check(s_["fut"].done(), "a future returned by send() is never resolved", key=s_["key"], faults=faults, cfg=str(cfg))
    # bounded time: every fault costs at most a request timeout + backoff + a metadata round trip
    bound = 3.0 + 2.5 * max_faults
    src.check(res["stop_returned_at"] - res["started_at"] <= bound,
              f"run took {res['stop_returned_at'] - res['started_at']:.2f}s of virtual time (> {bound}s) after retriable faults only", faults=faults)
    acks0 = cfg.get("acks") == 0
    for s in accepted:
        f = s["fut"]
        if not f.done() or f.cancelled():
            continue
        if f.exception() is not None:
            if cfg["idempotent"]:
                src.check(False, "an accepted record failed although only retriable faults occurred and idempotence is enabled",
                          error=repr(f.exception()), faults=faults, cfg=str(cfg))
            else:
                src.check(getattr(f.exception(), "retriable", False) or isinstance(f.exception(), Exception),
                          "record failed with a non-Kafka error")
            continue
        md = f.result()
        if acks0:
            src.check(md is None, "acks=0 must resolve without metadata")
            continue
        src.check(md is not None, "acknowledged record resolved without metadata")
        if md is None:
            continue
        log = {r[0]: r for r in prodsim.log_records(c, ("t", s["p"]))}
        src.check(md.partition == s["p"] and md.topic == "t", "wrong topic/partition in the result")
        if md.offset < 0:
            # DUPLICATE_SEQUENCE_NUMBER: the broker retained no metadata, so neither offset nor timestamp can be reported
            src.check(cfg.get("dup46") and md.offset == -1, "result without an offset although the broker reported one",
                      offset=md.offset, faults=faults, cfg=str(cfg))
            continue
        rec = log.get(md.offset)
        ok = rec is not None and rec[1] == s["key"] and rec[2] == s["value"]
        if src.twin:
            ok = not ok
        src.check(ok, "the record at the reported (partition, offset) is not the record that was sent",
                  sent=s["key"], found=(rec[1] if rec else None), offset=md.offset, faults=faults, cfg=str(cfg))
        if rec is None:
            continue
        batch = rec[4]
        if c.logs[("t", s["p"])].log_append_time and cfg["versions"][0][1] >= 2:
            src.check(md.timestamp_type == 1 and md.timestamp == rec[3], "LogAppendTime topic: result does not carry the broker's timestamp/type",
                      got=(md.timestamp, md.timestamp_type), want=rec[3])
        elif not c.logs[("t", s["p"])].log_append_time:
            src.check(md.timestamp_type == 0, "CreateTime topic: wrong timestamp type")
            src.check(md.timestamp == rec[3], "CreateTime topic: result timestamp is not the record's own timestamp",
                      got=md.timestamp, want=rec[3], faults=faults, cfg=str(cfg))
            if s["ts"] is not None:
                src.check(md.timestamp == s["ts"], "explicit timestamp not reported back")


def _s1(tier):
    from aiokafka.producer.sender import Sender, SendProduceReqHandler
    from aiokafka.producer.message_accumulator import MessageAccumulator
    from aiokafka.producer.producer import AIOKafkaProducer
    q = tier == "quick"
    confs = [([[0, 1, 0], [0, 0]], 4, 1)] if q else [([[0, 1, 0], [0, 0], [1, 1]], 6, 2)]
    hs = []
    for spec, mr, mf in confs:
        hs.append(Harness(
            name=f"S1_futures_{len(spec)}tasks_{mr}req_{mf}faults", fn=s1_futures,
            params={"tasks_spec": spec, "max_requests": mr, "max_faults": mf},
            functions=[MessageBatch.done, MessageBatch.failure, MessageBatch.done_noack, MessageAccumulator.flush,
                       MessageAccumulator.close, MessageAccumulator.add_message, SendProduceReqHandler.handle_response,
                       SendProduceReqHandler.do, AIOKafkaProducer.stop, AIOKafkaProducer.flush, AIOKafkaProducer.send],
            shape="S",
            symbolic_vars="choices: idempotence, acks (0/1/all), linger, batch size, CreateTime/LogAppendTime topic, explicit/default timestamps, advertised produce versions, flush+stop or stop only, fault kind at each of the first produce/metadata requests",
            bounds={"sender_tasks": len(spec), "records": sum(len(x) for x in spec), "faultable_requests": mr, "max_faults": mf,
                    "produce_versions": [str(v) for v in PRODUCE_VERSIONS]},
            stubs=["AIOKafkaConnection -> SimConn (env/simkafka.py)", "virtual-time event loop"],
            assumptions=["broker behaviour as modelled in env/simkafka.py"],
            max_seconds=400 if q else 2400, max_paths=5000000, twin_max_paths=2000))
    return hs


_u_harnesses = harnesses


def harnesses(tier):  # noqa: F811
    return _u_harnesses(tier) + _s1(tier)
