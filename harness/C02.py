"""C02 — every send future resolves once, with the record's true coordinates."""
import asyncio

from symx import Harness, s_and

from aiokafka.errors import KafkaTimeoutError, NotLeaderForPartitionError
from aiokafka.producer.message_accumulator import MessageBatch
from aiokafka.structs import TopicPartition

from .common import in_loop

TP = TopicPartition("topic", 3)


class _Meta:
    def __init__(self, offset, timestamp):
        self.offset = offset
        self.timestamp = timestamp
        self.crc = None
        self.size = 10


class StubBuilder:
    """BatchBuilder's interface; hands back metadata carrying the (symbolic) timestamp and the relative
    offset.  The real record builder is C09's subject (it insists on machine ints)."""

    def __init__(self):
        self.n = 0
        self._closed = False

    def append(self, *, timestamp, key, value, headers=()):
        m = _Meta(self.n, timestamp)
        self.n += 1
        return m

    def record_count(self):
        return self.n

    def closed(self):
        return self._closed

    def close(self):
        self._closed = True


def u1_done_coordinates(src, nrec):
    ts = [src.zint(f"user_ts{i}", 0) for i in range(nrec)]
    base = src.zint("base_offset", 0)
    broker_ts_kind = src.choice("broker_timestamp", 2)  # 0: -1 (CreateTime), 1: LogAppendTime value
    broker_ts = -1 if broker_ts_kind == 0 else src.zint("log_append_time", 0)
    lso = None if src.flag("no_log_start_offset") else src.zint("log_start_offset", 0)
    cancelled = src.choice("cancelled_mask", 1 << nrec)
    out = {}

    def run():
        b = MessageBatch(TP, StubBuilder(), 10, 0)
        futs = [b.append(b"k%d" % i, b"v", ts[i]) for i in range(nrec)]
        for i, f in enumerate(futs):
            if cancelled >> i & 1:
                f.cancel()
        try:
            b.done(base, broker_ts, lso)
            out["exc"] = None
        except Exception as e:  # noqa: BLE001
            out["exc"] = e
        out["futs"] = futs
        out["batch_future"] = b.future

    in_loop(run)
    src.check(out["exc"] is None or not isinstance(out["exc"], asyncio.InvalidStateError),
              "done() raised InvalidStateError (a future resolved twice)")
    if out["exc"] is not None and not isinstance(out["exc"], asyncio.InvalidStateError):
        raise out["exc"]
    for i, f in enumerate(out["futs"]):
        if cancelled >> i & 1:
            src.check(f.cancelled(), f"cancelled future {i} changed state")
            continue
        src.check(f.done() and f.exception() is None, f"future of record {i} not resolved by done()")
        if not f.done() or f.exception() is not None:
            continue
        md = f.result()
        src.check(md.topic == TP.topic and md.partition == TP.partition, "wrong topic/partition in RecordMetadata")
        src.check(md.offset == base + i + (1 if src.twin else 0), f"record {i}: offset != base_offset + relative offset")
        if broker_ts_kind == 0:
            src.check(md.timestamp == ts[i], f"record {i}: CreateTime reply but timestamp is not the record's own timestamp")
            src.check(md.timestamp_type == 0, "timestamp_type should be CreateTime (0)")
        else:
            src.check(md.timestamp == broker_ts, f"record {i}: LogAppendTime reply but timestamp is not the broker's")
            src.check(md.timestamp_type == 1, "timestamp_type should be LogAppendTime (1)")
        if lso is None:
            src.check(md.log_start_offset is None, "log_start_offset invented")
        else:
            src.check(md.log_start_offset == lso, "log_start_offset not propagated")
    bf = out["batch_future"]
    src.check(bf.done() and bf.exception() is None and bf.result().offset == base, "batch future not resolved with the base offset")


def u3_all_resolved(src, nrec):
    """done / done_noack / failure from a state where a subset of futures is already cancelled or
    resolved: every outstanding future gets exactly one result, none is left pending, nothing raises."""
    how = src.choice("how", 4)  # 0 done, 1 done_noack, 2 failure, 3 failure twice / done after failure
    pre = [src.choice(f"pre{i}", 2) for i in range(nrec)]  # 0 pending, 1 cancelled by the user
    batch_pre = 0  # the batch future is never exposed unshielded, the user cannot cancel it
    out = {}

    def run():
        b = MessageBatch(TP, StubBuilder(), 10, 0)
        futs = [b.append(b"k", b"v", 5) for i in range(nrec)]
        for f, p in zip(futs, pre):
            if p:
                f.cancel()
        if batch_pre:
            b.future.cancel()
        err = None
        try:
            if how == 0:
                b.done(7, -1, None)
            elif how == 1:
                b.done_noack()
            elif how == 2:
                b.failure(NotLeaderForPartitionError())
            else:
                b.failure(KafkaTimeoutError())
                b.failure(NotLeaderForPartitionError())
                b.done(7, -1, None)
        except Exception as e:  # noqa: BLE001
            err = e
        out.update(futs=futs, err=err, batch=b)

    in_loop(run)
    src.check(out["err"] is None, f"resolving the batch raised {type(out['err']).__name__}")
    for i, f in enumerate(out["futs"]):
        src.check(f.done() != src.twin, f"future {i} left pending")
        if not f.done() or pre[i]:
            continue
        if how == 0:
            src.check(f.exception() is None and f.result().offset == 7 + i, "done(): wrong result")
        elif how == 1:
            src.check(f.exception() is None and f.result() is None, "acks=0: future must resolve without metadata")
        elif how == 2:
            src.check(isinstance(f.exception(), NotLeaderForPartitionError), "failure(): wrong exception")
        else:
            src.check(isinstance(f.exception(), KafkaTimeoutError), "first failure must stick (resolved exactly once)")
    src.check(out["batch"].future.done(), "batch future left pending")


def harnesses(tier):
    q = tier == "quick"
    hs = []
    for n in ([1, 2, 3] if q else [1, 2, 3, 4]):
        hs.append(Harness(name=f"U1_done_coordinates_{n}rec", fn=u1_done_coordinates, params={"nrec": n},
                          functions=[MessageBatch.done, MessageBatch.append], shape="U",
                          symbolic_vars="user timestamps, base offset, broker timestamp, log start offset (unbounded z3 Ints); which futures were cancelled by the user (choice)",
                          bounds={"records": n}, stubs=["BatchBuilder replaced by a recording stub with the same interface"]))
        hs.append(Harness(name=f"U3_all_resolved_{n}rec", fn=u3_all_resolved, params={"nrec": n},
                          functions=[MessageBatch.done, MessageBatch.done_noack, MessageBatch.failure], shape="U",
                          symbolic_vars="resolution path and pre-cancelled subset (choices)", bounds={"records": n}))
    return hs
