"""C09 — record batches round-trip; both codecs agree (pure-Python codec decided here)."""
import z3

from symx import Harness, SymInt, s_and, s_or
from symx.core import SymBool
from symx import shims

import aiokafka.record._crc32c as CRCMOD
from aiokafka.record.util import decode_varint_py, encode_varint_py, size_of_varint_py

from .common import patched

INT64_MIN, INT64_MAX = -(2 ** 63), 2 ** 63 - 1


# ------------------------------------------------------------------------------------------
# K1 varints (zig-zag LEB128 as used inside v2 records)


def k1_varint_roundtrip(src):
    v = src.int("v", INT64_MIN, INT64_MAX)
    out = []
    encode_varint_py(v, out.append)
    n = len(out)
    src.note({"encoded_len": n})
    src.check(1 <= n <= 10, "varint encoding longer than 10 bytes or empty")
    # well-formedness: bytes in range, continuation bit on all but the last byte
    for i, b in enumerate(out):
        src.check(s_and(b >= 0, b <= 255), f"varint byte {i} outside 0..255")
        if i < n - 1:
            src.check((b & 0x80) == 0x80, f"varint byte {i} lacks continuation bit")
        else:
            src.check((b & 0x80) == 0, "last varint byte has continuation bit")
    # independent decode: sum of 7-bit groups == zigzag(v) (protobuf definition), minimal length
    zz = 0
    for i, b in enumerate(out):
        zz = zz + ((b & 0x7F) << (7 * i))
    want = (v << 1) ^ (v >> 63)
    if src.twin:
        want = want ^ 2
    src.check(zz == want, "varint payload != zigzag(value) per the protobuf/Kafka definition")
    if n > 1:
        src.check((out[-1] & 0x7F) != 0, "varint encoding is not minimal (trailing zero group)")
    # real decoder round trip
    got, pos = decode_varint_py(out, 0)
    src.check(got == v, "decode_varint(encode_varint(v)) != v")
    src.check(pos == n, "decoder did not consume exactly the encoded bytes")
    src.check(size_of_varint_py(v) == n, "size_of_varint disagrees with the bytes written")
    # prefix-freeness: trailing garbage is not consumed
    got2, pos2 = decode_varint_py(out + [src.byte("trail")], 0)
    src.check(s_and(got2 == v, pos2 == n), "decoder reads past the terminating byte")


# ------------------------------------------------------------------------------------------
# K3 CRC-32C: table-driven crc_update vs the bitwise definition (reflected poly 0x82F63B78)


def _crc_ref_step(state32, byte8):
    """one byte of the bitwise reflected CRC-32C on a 32-bit register (no init/final xor)"""
    s = state32 ^ z3.ZeroExt(24, byte8)
    for _ in range(8):
        s = z3.If(z3.Extract(0, 0, s) == 1, z3.LShR(s, 1) ^ z3.BitVecVal(0x82F63B78, 32), z3.LShR(s, 1))
    return s


def k3_crc_update(src, nbytes):
    c = src.int("crc_in", 0, 0xFFFFFFFF)
    data = src.bytes("d", nbytes)
    table = shims.SymTable(CRCMOD.CRC_TABLE, 8, 32)
    src.check(len(CRCMOD.CRC_TABLE) == 256, "CRC table does not have 256 entries")
    with patched(CRCMOD, array=shims.SymArrayModule, CRC_TABLE=table):
        got = CRCMOD.crc_update(c, shims.SymBuf(data))
    if nbytes <= 1:
        cin = c.trunc(32) if isinstance(c, SymInt) else z3.BitVecVal(c, 32)
        s = ~cin
        for b in data:
            s = _crc_ref_step(s, b.trunc(8) if isinstance(b, SymInt) else z3.BitVecVal(b, 8))
        ref = ~s
        if src.twin:
            ref = ref ^ 1
        if isinstance(got, SymInt):
            src.check(s_and(got >= 0, got <= 0xFFFFFFFF), "crc outside 32 bits")
            ok = SymBool(got.trunc(32) == ref)
        else:
            ok = got == z3.simplify(ref).as_long()
        src.check(ok, f"crc_update differs from the bitwise CRC-32C definition ({nbytes} byte(s) from an arbitrary state)")
    else:
        # fold structure of the loop: update(c, d1 ++ d2) == update(update(c, d1), d2) for every split
        for k in range(1, nbytes):
            with patched(CRCMOD, array=shims.SymArrayModule, CRC_TABLE=table):
                mid = CRCMOD.crc_update(c, shims.SymBuf(data[:k]))
                two = CRCMOD.crc_update(mid, shims.SymBuf(data[k:]))
            if src.twin:
                two = two ^ 1
            src.check(got == two, f"crc_update is not a fold: update(c, d[:{k}] ++ d[{k}:]) != update(update(c, d[:{k}]), d[{k}:])")


def k3b_crc_vectors(src):
    """translator validation + known-answer: RFC 3720 B.4 test vectors through the real function"""
    from aiokafka.record._crc32c import crc
    vecs = [(b"", 0), (b"123456789", 0xE3069283), (bytes(32), 0x8A9136AA), (b"\xff" * 32, 0x62A8AB43),
            (bytes(range(32)), 0x46DD794E), (bytes(range(31, -1, -1)), 0x113FDB5C)]
    i = src.choice("vector", len(vecs))
    data, want = vecs[i]
    if src.twin:
        want ^= 1
    src.check(crc(data) == want, f"crc32c known-answer vector {i} mismatch")


# ------------------------------------------------------------------------------------------
# D1-D3: builders / readers / splitter against the independent reference codec (specs/refcodec.py)

from specs import refcodec as REF  # noqa: E402
from . import cext as CX  # noqa: E402
from aiokafka.record.default_records import _DefaultRecordBatchBuilderPy, _DefaultRecordBatchPy  # noqa: E402
from aiokafka.record.legacy_records import _LegacyRecordBatchBuilderPy, _LegacyRecordBatchPy  # noqa: E402
from aiokafka.record.memory_records import _MemoryRecordsPy  # noqa: E402
from aiokafka.errors import UnsupportedCodecError  # noqa: E402

KEYS = [None, b"", b"k", b"K" * 63, b"K" * 64]
VALUES = [None, b"", b"v", b"V" * 200, bytes((i * 37 + 11) % 251 for i in range(43))]
HEADERS = [[], [("h", None)], [("hé", b"x"), ("z", b"")]]
TIMESTAMPS = [[1000, 1001, 1002], [5000, 10, 4999], [0, 2 ** 40, 1], [7, 7, 7]]


def _compiled():
    try:
        from aiokafka.record._crecords import (DefaultRecordBatch as CB, DefaultRecordBatchBuilder as CBB,
                                               LegacyRecordBatchBuilder as CLB, MemoryRecords as CMR)
        return CB, CBB, CLB, CMR
    except Exception:  # noqa: BLE001
        return None


class _Undecodable(Exception):
    """the library reader raised on bytes the harness knows to be well-formed (already reported through src.check)"""


def _lib_decode(cls, raw, src=None, what="", info=None):
    """decode with the library reader; with `src` given the bytes are known to be well-formed, so an ordinary
    exception from the reader is a violation of the round-trip clause (reported, then _Undecodable ends the path)"""
    import struct as _struct

    from aiokafka.errors import KafkaError
    out = []
    try:
        recs = cls(bytes(raw))
        while recs.has_next():
            b = recs.next_batch()
            ok = b.validate_crc()
            out.append((b, ok, [(r.offset, r.timestamp, r.key, r.value, list(getattr(r, "headers", []) or [])) for r in b]))
    except (KafkaError, ValueError, IndexError, TypeError, KeyError, AssertionError, OverflowError, _struct.error) as e:
        if src is None:
            raise
        src.check(False, f"{what}: reader raised {type(e).__name__} on well-formed bytes: {str(e)[:120]}", **(info or {}))
        raise _Undecodable() from e
    return out


def _ends_on_undecodable(fn):
    import functools

    @functools.wraps(fn)
    def run(src, **kw):
        try:
            return fn(src, **kw)
        except _Undecodable:
            return None
    return run


def _zz_len(n):
    """bytes of the zig-zag varint of n (independent of the code)"""
    z = (n << 1) ^ (n >> 63)
    k = 1
    while z >= 0x80:
        z >>= 7
        k += 1
    return k


@_ends_on_undecodable
def d1_v2_builder(src, max_records=3, small=False):
    keys = [None, b"k", b"K" * 64] if small else KEYS
    values = [None, b"v", VALUES[-1]] if small else VALUES
    n = 1 + src.choice("records", max_records)
    ts = TIMESTAMPS[src.choice("timestamps", len(TIMESTAMPS))]
    codec = src.choice("codec_none_gzip_snappy_lz4_zstd", 5)
    txn = src.flag("transactional")
    recs = []
    for i in range(n):
        recs.append(dict(offset=i, timestamp=ts[i], key=keys[src.choice(f"key{i}", len(keys))],
                         value=values[src.choice(f"value{i}", len(values))],
                         headers=HEADERS[src.choice(f"headers{i}", len(HEADERS))] if i == 0 else []))
    # batch-size limit: generous, or exactly at / just below the size needed for the first k records
    sizes = [len(REF.encode_v2(0, recs[:k])) for k in range(1, n + 1)]
    lim_kind = src.choice("batch_size", 4)
    batch_size = [1 << 20, sizes[-1], sizes[-1] - 1, sizes[0]][lim_kind]
    pid, epoch, seq = [(-1, -1, -1), (2 ** 63 - 1, 2 ** 15 - 1, 2 ** 31 - 1)][src.choice("producer_extremes", 2)]
    b = _DefaultRecordBatchBuilderPy(2, codec, is_transactional=txn, producer_id=pid, producer_epoch=epoch,
                                     base_sequence=seq, batch_size=batch_size)
    accepted = []
    for i, r in enumerate(recs):
        # size accounting asked for before the record is appended (what the producer's batching logic uses)
        alone = len(REF.encode_v2(0, [dict(r, offset=0)])) - 61          # length varint + body of this record alone
        body = next(alone - vl for vl in range(1, 6) if _zz_len(alone - vl) == vl)
        kvh = body - 3 + (1 if src.twin and i == 0 else 0)              # attrs, offset delta 0, timestamp delta 0: one byte each
        src.check(_DefaultRecordBatchBuilderPy.size_of(r["key"], r["value"], r["headers"]) == kvh,
                  "size_of(key, value, headers) is not the number of bytes these fields occupy in the record", record=i, want=kvh)
        src.check(_DefaultRecordBatchBuilderPy.estimate_size_in_bytes(r["key"], r["value"], r["headers"]) >= 61 + alone,
                  "estimate_size_in_bytes is not an upper bound of a batch holding this record", record=i)
        predicted = b.size_in_bytes(r["offset"], r["timestamp"], r["key"], r["value"], r["headers"])
        md = b.append(r["offset"], r["timestamp"], key=r["key"], value=r["value"], headers=r["headers"])
        # independent statement of the limit: a record is refused iff the uncompressed batch would exceed
        # batch_size and it is not the first record
        would = len(REF.encode_v2(0, accepted + [r]))
        want_accept = (not accepted) or would <= batch_size
        src.check((md is not None) == want_accept,
                  "append() accept/refuse decision disagrees with the encoded size vs batch_size",
                  record=i, would_be=would, batch_size=batch_size)
        if md is not None:
            prev = len(REF.encode_v2(0, accepted)) if accepted else 61
            accepted.append(r)
            src.check(b.size() == would, "size() disagrees with the bytes an independent encoder produces", got=b.size(), want=would)
            src.check(md.size == would - prev, "metadata.size of the appended record is not the number of bytes it added",
                      got=md.size, want=would - prev)
            src.check(predicted == would - prev, "size_in_bytes() asked before append() is not the number of bytes the record then took",
                      got=predicted, want=would - prev)
    raw = bytes(b.build())
    d = REF.decode_v2(raw)
    info = dict(records=len(recs), accepted=len(accepted), gzip=codec, batch_size=batch_size)
    src.check(d["crc_ok"], "CRC field is not crc32c(attributes..end)", **info)
    src.check(d["length"] == len(raw) - 12, "batch length field != bytes after it", **info)
    src.check(d["count"] == len(accepted) and len(d["records"]) == len(accepted), "record count field != records in the batch", **info)
    src.check(d["last_offset_delta"] == accepted[-1]["offset"], "last offset delta != offset of the last record in the batch", **info)
    src.check(d["first_timestamp"] == accepted[0]["timestamp"], "first timestamp != timestamp of the first record", **info)
    want_max = max(r["timestamp"] for r in accepted) + (1 if src.twin else 0)
    src.check(d["max_timestamp"] == want_max, "max timestamp != maximum over the records in the batch",
              got=d["max_timestamp"], want=want_max, **info)
    src.check((d["producer_id"], d["producer_epoch"], d["base_sequence"]) == (pid, epoch, seq), "producer fields not preserved", **info)
    src.check(d["transactional"] == txn and not d["control"], "attribute flags wrong", **info)
    want_recs = [(r["offset"], r["timestamp"], r["key"], r["value"], r["headers"]) for r in accepted]
    got = [(r["offset"], r["timestamp"], r["key"], r["value"], r["headers"]) for r in d["records"]]
    src.check(got == want_recs, "reference decoder reads different records than were appended", **info)
    # library reader on library bytes and on reference bytes
    for label, data in (("library bytes", raw), ("reference bytes", REF.encode_v2(0, accepted, transactional=txn, producer_id=pid,
                                                                               producer_epoch=epoch, base_sequence=seq, codec=codec))):
        dec = _lib_decode(_MemoryRecordsPy, data, src, f"pure-Python reader on {label}", info)
        src.check(len(dec) == 1 and dec[0][1] and dec[0][2] == want_recs, f"pure-Python reader on {label}: records differ or CRC invalid", **info)
    if CX.available():
        # compiled codec, built from the current .pyx sources, driven in a watchdog subprocess
        got = _cx_decode(src, raw, "pure-Python builder's bytes", info)
        if got is not None:
            src.check(got == [(True, want_recs)], "compiled reader decodes the pure-Python builder's bytes differently", got=str(got)[:200], **info)
        r = CX.call({"op": "build_v2", "codec": codec, "txn": int(txn), "pid": pid, "epoch": epoch, "seq": seq, "batch_size": batch_size,
                     "records": [dict(offset=x["offset"], timestamp=x["timestamp"], key=CX.hx(x["key"]), value=CX.hx(x["value"]),
                                      headers=[[k, CX.hx(v)] for k, v in x["headers"]]) for x in recs]})
        src.check("exc" not in r and "hang" not in r and "crash" not in r, "compiled v2 builder failed: " + str(r)[:120], **info)
        if "data" in r:
            cacc = [x for x, ok in zip(recs, r["accepted"]) if ok]
            cwant = [(x["offset"], x["timestamp"], x["key"], x["value"], x["headers"]) for x in cacc]
            craw = bytes.fromhex(r["data"])
            # (the two builders may differ on a record that fits the limit exactly; each must be
            #  self-consistent and every reader must agree on the bytes of either)
            src.check(len(craw) <= max(batch_size, len(REF.encode_v2(0, recs[:1]))) or codec != 0,
                      "compiled builder produced a batch larger than batch_size", **info)
            if len(cacc) == len(accepted) and codec == 0:
                src.check(craw == raw, "compiled and pure-Python builders produce different bytes for the same records", **info)
            dec = _lib_decode(_MemoryRecordsPy, craw, src, "pure-Python reader on the compiled builder's bytes", info)
            src.check(len(dec) == 1 and dec[0][1] and dec[0][2] == cwant, "pure-Python reader decodes the compiled builder's bytes differently", **info)
            d2 = REF.decode_v2(craw)
            src.check(d2["crc_ok"] and d2["max_timestamp"] == max(x["timestamp"] for x in cacc) and d2["count"] == len(cacc),
                      "compiled builder: header fields (CRC / max timestamp / count) do not describe the batch", **info)


def _cx_decode(src, raw, what, info):
    r = CX.decode(raw)
    if "hang" in r:
        src.check(False, f"compiled decoder does not terminate on {what}", **info)
        return None
    if "crash" in r:
        src.check(False, f"compiled decoder crashed the interpreter on {what} (exit {r['crash']})", **info)
        return None
    if "exc" in r:
        src.check(False, f"compiled decoder raised {r['exc']} on {what}", detail=r.get("msg"), **info)
        return None
    out = []
    for b in r["batches"]:
        out.append((b["crc"], [(o, t, None if k is None else bytes.fromhex(k), None if v is None else bytes.fromhex(v),
                                [(hk, None if hv is None else bytes.fromhex(hv)) for hk, hv in hs]) for o, t, k, v, hs in b["records"]]))
    return out


@_ends_on_undecodable
def d2_legacy_builder(src, magic):
    n = 1 + src.choice("records", 3)
    comp = src.choice("codec_none_gzip_snappy_lz4", 4)
    recs = []
    for i in range(n):
        recs.append(dict(offset=i, timestamp=[5, 9, 7][i], key=KEYS[src.choice(f"key{i}", 4)],
                         value=VALUES[src.choice(f"value{i}", len(VALUES))]))
    b = _LegacyRecordBatchBuilderPy(magic, comp, 1 << 20)
    for r in recs:
        md = b.append(r["offset"], timestamp=r["timestamp"], key=r["key"], value=r["value"])
        src.check(md is not None, "legacy builder refused a record far below the batch size")
    info = dict(magic=magic, codec=comp, records=n)
    try:
        raw = bytes(b.build())
    except UnsupportedCodecError:
        # LZ4 with message format v0 is refused on purpose (KAFKA-3160: incompatible framing on old brokers)
        src.check(magic == 0 and comp == 3, "legacy builder refuses a codec it supports", **info)
        return
    except Exception as e:  # noqa: BLE001
        src.check(False, f"legacy builder build() raised {type(e).__name__}", **info)
        return
    src.check(not (magic == 0 and comp == 3), "LZ4 in a v0 message set was not refused (KAFKA-3160)", **info)
    got = REF.decode_legacy_set(raw)
    want = [(r["offset"], r["key"], r["value"], r["timestamp"] if magic == 1 else -1) for r in recs]
    if comp and magic == 1 and len(recs) > 0:
        # producer-side wrapper: offset 0.. relative; the reference reader rebases on the wrapper offset
        base = got[0]["offset"]
        g = [(x["offset"] - base, x["key"], x["value"], x["timestamp"]) for x in got]
    else:
        g = [(x["offset"], x["key"], x["value"], x["timestamp"]) for x in got]
    if src.twin:
        want = want[:-1]
    src.check(g == want and all(x["crc_ok"] for x in got), "reference decoder reads different records / bad CRC from the legacy builder's bytes",
              got=str(g)[:200], **info)
    dec = _lib_decode(_MemoryRecordsPy, raw, src, "pure-Python legacy reader on the legacy builder's bytes", info)
    flat = [(o, k, v) for (_, ok, rs) in dec for (o, t, k, v, h) in rs]
    src.check(all(ok for _, ok, _ in dec), "pure-Python legacy reader reports an invalid CRC on the builder's own bytes", **info)
    src.check([(k, v) for (_, k, v) in flat] == [(r["key"], r["value"]) for r in recs], "pure-Python legacy reader round trip differs", **info)


def d3_concat(src):
    """any concatenation of valid batches of mixed formats decodes batch by batch; a trailing partial
    batch is ignored"""
    def mk(kind, base):
        recs = [dict(offset=base, timestamp=5, key=b"a%d" % base, value=b"b", headers=[]),
                dict(offset=base + 1, timestamp=6, key=None, value=b"c", headers=[])]
        if kind == "v2":
            return REF.encode_v2(base, recs), recs
        if kind == "v2gz":
            return REF.encode_v2(base, recs, codec=1), recs
        if kind in ("v2snappy", "v2lz4", "v2zstd"):
            return REF.encode_v2(base, recs, codec={"snappy": 2, "lz4": 3, "zstd": 4}[kind[2:]]), recs
        m = int(kind[1])
        if kind.endswith("snappy"):
            return REF.encode_legacy(m, recs, compressed=True, codec=2), recs
        if kind.endswith("lz4"):
            return REF.encode_legacy(m, recs, compressed=True, codec=3), recs
        return REF.encode_legacy(m, recs, compressed=kind.endswith("gz")), recs
    kinds = ["v0", "v1", "v2", "v1gz", "v0gz", "v2gz", "v2snappy", "v2lz4", "v2zstd", "v0snappy", "v1snappy", "v1lz4"]
    n = 2 + src.choice("batches", 2)
    chosen = [kinds[src.choice(f"kind{i}", len(kinds))] for i in range(n)]
    raw = b""
    want = []
    for i, k in enumerate(chosen):
        data, recs = mk(k, 10 * i)
        raw += data
        want += [(r["offset"], r["key"], r["value"]) for r in recs]
    tail, _ = mk(kinds[src.choice("tail_kind", len(kinds))], 90)
    cut = [0, 5, 12, 17, len(tail) - 1][src.choice("tail_cut", 5)]
    raw += tail[:cut]
    info = dict(kinds=chosen, tail_bytes=cut)
    # expected: what the reference splitter + reference decoders read (complete batches only)
    want = []
    for magic, a_, b_ in REF.split_batches(raw):
        if magic >= 2:
            want += [(r["offset"], r["key"], r["value"]) for r in REF.decode_v2(raw, a_)["records"]]
        else:
            want += [(r["offset"], r["key"], r["value"]) for r in REF.decode_legacy_set(raw, a_, b_)]
    w = want[:-1] if src.twin else want
    try:
        dec = _lib_decode(_MemoryRecordsPy, raw)
        got = [(o, k, v) for (_, ok, rs) in dec for (o, t, k, v, h) in rs]
        src.check(got == w, "pure-Python codec: concatenated batches of mixed formats do not decode batch by batch", got=str(got)[:160], **info)
        src.check(all(ok for _, ok, _ in dec), "pure-Python codec: CRC of a valid batch reported invalid", **info)
    except Exception as e:  # noqa: BLE001
        src.check(False, f"pure-Python splitter/reader raised {type(e).__name__} on a concatenation of valid batches", **info)
    if CX.available():
        r = _cx_decode(src, raw, "a concatenation of valid batches of mixed formats", info)
        if r is not None:
            got = [(o, k, v) for (ok, rs) in r for (o, t, k, v, h) in rs]
            src.check(got == want, "compiled codec: concatenated batches of mixed formats do not decode batch by batch", got=str(got)[:160], **info)
            src.check(all(ok for ok, _ in r), "compiled codec: CRC of a valid batch reported invalid", **info)


def d4_broker_stamped_wrapper(src):
    """a v1 compressed message set as a broker with LogAppendTime stores it: the wrapper carries the
    timestamp-type bit and the append time, the inner messages keep the producer's attributes and
    timestamps -- every record reads back with the wrapper's timestamp and type LogAppendTime"""
    codec = [1, 2, 3][src.choice("codec_gzip_snappy_lz4", 3)]
    n = 1 + src.choice("records", 3)
    stamped = src.flag("wrapper_has_log_append_time")
    recs = [dict(offset=20 + i, timestamp=[5000, 4000, 6000][i], key=b"k%d" % i, value=b"v%d" % i) for i in range(n)]
    inner = b"".join(REF.encode_legacy_message(1, i, r["timestamp"], r["key"], r["value"]) for i, r in enumerate(recs))
    append_time = 777777
    attrs = codec | (0x08 if stamped else 0)
    raw = REF.encode_legacy_message(1, recs[-1]["offset"], append_time if stamped else max(r["timestamp"] for r in recs), None,
                                    REF.compress(codec, inner), attrs)
    want = [(r["offset"], append_time if stamped else r["timestamp"], 1 if stamped else 0, r["key"], r["value"]) for r in recs]
    if src.twin:
        want = want[:-1]
    info = dict(codec=codec, records=n, stamped=stamped)
    try:
        got = []
        m = _MemoryRecordsPy(raw)
        while m.has_next():
            b = m.next_batch()
            src.check(b.validate_crc(), "valid wrapper reported corrupt", **info)
            got += [(r.offset, r.timestamp, r.timestamp_type, r.key, r.value) for r in b]
    except Exception as e:  # noqa: BLE001
        src.check(False, f"pure-Python reader raised {type(e).__name__} on a broker-stamped compressed message set", **info)
        return
    src.check(got == want, "pure-Python reader: records of a compressed v1 message set do not carry the wrapper's timestamp / timestamp type",
              got=str(got)[:200], want=str(want)[:200], **info)
    if CX.available():
        r = _cx_decode(src, raw, "a broker-stamped compressed v1 message set", info)
        if r is not None:
            cg = [(o, t, k, v) for (ok, rs) in r for (o, t, k, v, h) in rs]
            src.check(cg == [(o, t, k, v) for (o, t, tt, k, v) in want], "compiled reader: offsets/timestamps of a broker-stamped compressed v1 message set differ",
                      got=str(cg)[:200], **info)


def prepare(tier):
    return CX.prepare()


def cleanup():
    CX.cleanup()


def harnesses(tier):
    q = tier == "quick"
    hs = [
        Harness(name="D1_v2_builder_vs_reference", fn=d1_v2_builder,
                params={"max_records": 2, "small": True} if q else {"max_records": 3, "small": False},
                functions=[_DefaultRecordBatchBuilderPy.append, _DefaultRecordBatchBuilderPy.build, _DefaultRecordBatchBuilderPy.size,
                           _DefaultRecordBatchPy._read_msg, _DefaultRecordBatchPy.validate_crc], shape="U",
                symbolic_vars="finite-domain choices: 1-3 records, key/value from a boundary menu (null, empty, 63/64 bytes, incompressible), headers (null value, non-ASCII key), timestamp patterns (decreasing, delta > int32), gzip, transactional, producer id/epoch/sequence extremes, batch_size at/just below the encoded size",
                bounds={"records": "1..3"}, note="differential against the independent reference codec (concrete enumeration); compiled codec compared when importable",
                max_seconds=600, max_paths=3000000, twin_max_paths=200),
        Harness(name="D4_broker_stamped_wrapper", fn=d4_broker_stamped_wrapper,
                functions=[_LegacyRecordBatchPy.__iter__ if hasattr(_LegacyRecordBatchPy, "__iter__") else _LegacyRecordBatchPy], shape="S",
                symbolic_vars="choices: codec (gzip/snappy/lz4), records, wrapper with or without the LogAppendTime bit",
                bounds={"records": "1..3"}, max_seconds=120, twin_max_paths=50),
        Harness(name="D3_concatenation_mixed_formats", fn=d3_concat,
                functions=[_MemoryRecordsPy._cache_next, _MemoryRecordsPy.next_batch], shape="U",
                symbolic_vars="finite-domain choices: 2-3 batches each of v0/v1/v2/gzip wrappers, trailing partial batch of 0/5/12/17/len-1 bytes",
                bounds={"batches": "2..3"}, max_seconds=300, twin_max_paths=200),
    ]
    for m in (0, 1):
        hs.append(Harness(name=f"D2_legacy_builder_v{m}", fn=d2_legacy_builder, params={"magic": m},
                          functions=[_LegacyRecordBatchBuilderPy.append, _LegacyRecordBatchBuilderPy.build, _LegacyRecordBatchPy.__iter__],
                          shape="U", symbolic_vars="finite-domain choices: 1-3 records, key/value menus (incl. a 43-byte incompressible value), gzip or not",
                          bounds={"records": "1..3"}, max_seconds=300, twin_max_paths=200))
    hs += [
        Harness(name="K1_varint_roundtrip", fn=k1_varint_roundtrip,
                functions=[encode_varint_py, decode_varint_py, size_of_varint_py], shape="K",
                symbolic_vars="v: all of int64 (65-bit vector); one trailing byte",
                bounds={"value": "all 2^64 int64 values"}, max_seconds=300),
    ]
    for n in ([0, 1, 2] if q else [0, 1, 2, 3]):
        hs.append(Harness(name=f"K3_crc_update_{n}B", fn=k3_crc_update, params={"nbytes": n},
                          functions=[CRCMOD.crc_update], shape="K",
                          symbolic_vars="incoming crc: all uint32; each data byte: all 256 values",
                          bounds={"bytes": n, "state": "all 2^32"},
                          stubs=["array.array('B', data) -> list", "CRC_TABLE consulted through a z3 array holding the real table"],
                          note="0/1 byte: equality with the bitwise definition from an arbitrary 32-bit state; 2+ bytes: the loop is a fold over that step (so every length follows)",
                          max_seconds=600, solver_timeout_ms=300000, parallel=False))
    hs.append(Harness(name="K3b_crc_known_answers", fn=k3b_crc_vectors, functions=[CRCMOD.crc],
                      shape="K", bounds={"vectors": 6}, symbolic_vars="none (known-answer vectors, RFC 3720 B.4)"))
    return hs
