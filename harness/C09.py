"""C09 — record batches round-trip; both codecs agree (pure-Python codec decided here)."""
import z3

from symx import Harness, SymInt, s_and, s_or
from symx.core import SymBool
from symx import shims

import aiokafka.record._crc32c as CRCMOD
from aiokafka.record.util import decode_varint_py, encode_varint_py, size_of_varint_py

from .common import patched

INT64_MIN, INT64_MAX = -(2 ** 63), 2 ** 63 - 1


# ------------------------------------------------------------------------------------------
# K1 varints (zig-zag LEB128 as used inside v2 records)


def k1_varint_roundtrip(src):
    v = src.int("v", INT64_MIN, INT64_MAX)
    out = []
    encode_varint_py(v, out.append)
    n = len(out)
    src.note({"encoded_len": n})
    src.check(1 <= n <= 10, "varint encoding longer than 10 bytes or empty")
    # well-formedness: bytes in range, continuation bit on all but the last byte
    for i, b in enumerate(out):
        src.check(s_and(b >= 0, b <= 255), f"varint byte {i} outside 0..255")
        if i < n - 1:
            src.check((b & 0x80) == 0x80, f"varint byte {i} lacks continuation bit")
        else:
            src.check((b & 0x80) == 0, "last varint byte has continuation bit")
    # independent decode: sum of 7-bit groups == zigzag(v) (protobuf definition), minimal length
    zz = 0
    for i, b in enumerate(out):
        zz = zz + ((b & 0x7F) << (7 * i))
    want = (v << 1) ^ (v >> 63)
    if src.twin:
        want = want ^ 2
    src.check(zz == want, "varint payload != zigzag(value) per the protobuf/Kafka definition")
    if n > 1:
        src.check((out[-1] & 0x7F) != 0, "varint encoding is not minimal (trailing zero group)")
    # real decoder round trip
    got, pos = decode_varint_py(out, 0)
    src.check(got == v, "decode_varint(encode_varint(v)) != v")
    src.check(pos == n, "decoder did not consume exactly the encoded bytes")
    src.check(size_of_varint_py(v) == n, "size_of_varint disagrees with the bytes written")
    # prefix-freeness: trailing garbage is not consumed
    got2, pos2 = decode_varint_py(out + [src.byte("trail")], 0)
    src.check(s_and(got2 == v, pos2 == n), "decoder reads past the terminating byte")


# ------------------------------------------------------------------------------------------
# K3 CRC-32C: table-driven crc_update vs the bitwise definition (reflected poly 0x82F63B78)


def _crc_ref_step(state32, byte8):
    """one byte of the bitwise reflected CRC-32C on a 32-bit register (no init/final xor)"""
    s = state32 ^ z3.ZeroExt(24, byte8)
    for _ in range(8):
        s = z3.If(z3.Extract(0, 0, s) == 1, z3.LShR(s, 1) ^ z3.BitVecVal(0x82F63B78, 32), z3.LShR(s, 1))
    return s


def k3_crc_update(src, nbytes):
    c = src.int("crc_in", 0, 0xFFFFFFFF)
    data = src.bytes("d", nbytes)
    table = shims.SymTable(CRCMOD.CRC_TABLE, 8, 32)
    src.check(len(CRCMOD.CRC_TABLE) == 256, "CRC table does not have 256 entries")
    with patched(CRCMOD, array=shims.SymArrayModule, CRC_TABLE=table):
        got = CRCMOD.crc_update(c, shims.SymBuf(data))
    if nbytes <= 1:
        cin = c.trunc(32) if isinstance(c, SymInt) else z3.BitVecVal(c, 32)
        s = ~cin
        for b in data:
            s = _crc_ref_step(s, b.trunc(8) if isinstance(b, SymInt) else z3.BitVecVal(b, 8))
        ref = ~s
        if src.twin:
            ref = ref ^ 1
        if isinstance(got, SymInt):
            src.check(s_and(got >= 0, got <= 0xFFFFFFFF), "crc outside 32 bits")
            ok = SymBool(got.trunc(32) == ref)
        else:
            ok = got == z3.simplify(ref).as_long()
        src.check(ok, f"crc_update differs from the bitwise CRC-32C definition ({nbytes} byte(s) from an arbitrary state)")
    else:
        # fold structure of the loop: update(c, d1 ++ d2) == update(update(c, d1), d2) for every split
        for k in range(1, nbytes):
            with patched(CRCMOD, array=shims.SymArrayModule, CRC_TABLE=table):
                mid = CRCMOD.crc_update(c, shims.SymBuf(data[:k]))
                two = CRCMOD.crc_update(mid, shims.SymBuf(data[k:]))
            if src.twin:
                two = two ^ 1
            src.check(got == two, f"crc_update is not a fold: update(c, d[:{k}] ++ d[{k}:]) != update(update(c, d[:{k}]), d[{k}:])")


def k3b_crc_vectors(src):
    """translator validation + known-answer: RFC 3720 B.4 test vectors through the real function"""
    from aiokafka.record._crc32c import crc
    vecs = [(b"", 0), (b"123456789", 0xE3069283), (bytes(32), 0x8A9136AA), (b"\xff" * 32, 0x62A8AB43),
            (bytes(range(32)), 0x46DD794E), (bytes(range(31, -1, -1)), 0x113FDB5C)]
    i = src.choice("vector", len(vecs))
    data, want = vecs[i]
    if src.twin:
        want ^= 1
    src.check(crc(data) == want, f"crc32c known-answer vector {i} mismatch")


def harnesses(tier):
    q = tier == "quick"
    hs = [
        Harness(name="K1_varint_roundtrip", fn=k1_varint_roundtrip,
                functions=[encode_varint_py, decode_varint_py, size_of_varint_py], shape="K",
                symbolic_vars="v: all of int64 (65-bit vector); one trailing byte",
                bounds={"value": "all 2^64 int64 values"}, max_seconds=300),
    ]
    for n in ([0, 1, 2] if q else [0, 1, 2, 3]):
        hs.append(Harness(name=f"K3_crc_update_{n}B", fn=k3_crc_update, params={"nbytes": n},
                          functions=[CRCMOD.crc_update], shape="K",
                          symbolic_vars="incoming crc: all uint32; each data byte: all 256 values",
                          bounds={"bytes": n, "state": "all 2^32"},
                          stubs=["array.array('B', data) -> list", "CRC_TABLE consulted through a z3 array holding the real table"],
                          note="0/1 byte: equality with the bitwise definition from an arbitrary 32-bit state; 2+ bytes: the loop is a fold over that step (so every length follows)",
                          max_seconds=600, solver_timeout_ms=300000, parallel=False))
    hs.append(Harness(name="K3b_crc_known_answers", fn=k3b_crc_vectors, functions=[CRCMOD.crc],
                      shape="K", bounds={"vectors": 6}, symbolic_vars="none (known-answer vectors, RFC 3720 B.4)"))
    return hs
