"""C17 — keyed records choose the same partition as the Java client."""
import z3

from symx import Harness, SymInt
from symx.core import SymBool

import aiokafka.partitioner as P
from aiokafka.partitioner import DefaultPartitioner, murmur2


# ---- oracle: Java's Utils.murmur2 transcribed in int32 bit-vector arithmetic (not from the code)
def java_murmur2_bv(data8, shift_r=24):
    """data8: list of 8-bit z3 BV expressions.  Returns a 32-bit BV (Java int bits)."""
    def b(i):
        return z3.ZeroExt(24, data8[i])  # (data[i] & 0xff) as int

    n = len(data8)
    m = z3.BitVecVal(0x5BD1E995, 32)
    h = z3.BitVecVal(0x9747B28C ^ n, 32)
    for i in range(n // 4):
        i4 = i * 4
        k = b(i4) + (b(i4 + 1) << 8) + (b(i4 + 2) << 16) + (b(i4 + 3) << 24)
        k = k * m
        k = k ^ z3.LShR(k, shift_r)
        k = k * m
        h = h * m
        h = h ^ k
    base = n & ~3
    rem = n % 4
    if rem == 3:
        h = h ^ (b(base + 2) << 16)
    if rem >= 2:
        h = h ^ (b(base + 1) << 8)
    if rem >= 1:
        h = h ^ b(base)
        h = h * m
    h = h ^ z3.LShR(h, 13)
    h = h * m
    h = h ^ z3.LShR(h, 15)
    return h


def _as_bv8(x):
    if isinstance(x, SymInt):
        return x.trunc(8)
    return z3.BitVecVal(x, 8)


def k1_murmur2(src, lengths):
    for n in lengths:
        data = src.bytes(f"k{n}", n)
        h = murmur2(data)
        ref = java_murmur2_bv([_as_bv8(x) for x in data])
        if src.twin:
            ref = ref ^ 1  # seeded oracle error (a shift-23 reference is also sat but takes z3 > 30 s)
        if isinstance(h, SymInt):
            src.check(h >= 0, f"murmur2 result negative for length {n}")
            src.check(h <= 0xFFFFFFFF, f"murmur2 result exceeds 32 bits for length {n}")
            ok = SymBool(h.trunc(32) == ref)
        else:
            ok = (0 <= h <= 0xFFFFFFFF) and h == z3.simplify(ref).as_long()
        src.check(ok, f"murmur2 differs from Java Utils.murmur2 for a key of length {n}", length=n)


def java_murmur2_int32(data: bytes) -> int:
    """Java Utils.murmur2 with explicit int32 wrap-around (second, plain-Python transcription)"""
    def i32(x):
        x &= 0xFFFFFFFF
        return x - (1 << 32) if x & 0x80000000 else x

    def ushr(x, n):
        return (x & 0xFFFFFFFF) >> n

    n = len(data)
    m = 0x5BD1E995
    h = i32(0x9747B28C ^ n)
    for i in range(n // 4):
        i4 = i * 4
        k = (data[i4] & 0xFF) + ((data[i4 + 1] & 0xFF) << 8) + ((data[i4 + 2] & 0xFF) << 16) + ((data[i4 + 3] & 0xFF) << 24)
        k = i32(k)
        k = i32(k * m)
        k = i32(k ^ ushr(k, 24))
        k = i32(k * m)
        h = i32(h * m)
        h = i32(h ^ k)
    base = n & ~3
    r = n % 4
    if r == 3:
        h = i32(h ^ ((data[base + 2] & 0xFF) << 16))
    if r >= 2:
        h = i32(h ^ ((data[base + 1] & 0xFF) << 8))
    if r >= 1:
        h = i32(h ^ (data[base] & 0xFF))
        h = i32(h * m)
    h = i32(h ^ ushr(h, 13))
    h = i32(h * m)
    h = i32(h ^ ushr(h, 15))
    return h


PATTERN = [0x00, 0x7F, 0x80, 0xFF]


def k1b_high_bit_patterns(src, length):
    """every high-bit pattern of the last block and the tail bytes, as real bytes objects (covers code that
    hands the key to C-level helpers, which the symbolic run cannot follow)"""
    vary = min(length, 4 + length % 4)
    key = bytearray(b"\x21" * length)
    for j in range(vary):
        key[length - 1 - j] = PATTERN[src.choice(f"b{j}", 4)]
    key = bytes(key)
    got = murmur2(key)
    want = java_murmur2_int32(key) & 0xFFFFFFFF
    if src.twin:
        want ^= 1
    src.check(isinstance(got, int) and got == want,
              f"murmur2 differs from Java Utils.murmur2 for a key of length {length} with high-bit bytes", key=key.hex())


class _Poison:
    """`available` must not influence a keyed record."""
    def __init__(self):
        self.touched = False

    def _t(self, *a, **k):
        self.touched = True
        raise RuntimeError("available partitions consulted for a keyed record")

    __bool__ = __len__ = __iter__ = __getitem__ = __contains__ = _t


def k2_partitioner(src, counts):
    """DefaultPartitioner.__call__ with murmur2 replaced by an arbitrary uint32 (its contract, K1)."""
    saved = P.murmur2
    try:
        for n in [counts[src.choice("n_index", len(counts))]]:
            h = src.zint(f"h{n}", 0, 0xFFFFFFFF)
            P.murmur2 = lambda key, h=h: h
            allp = [1000 + 7 * i for i in range(n)]  # ids differ from indexes
            poison = _Poison()
            try:
                got = DefaultPartitioner()(b"key", allp, poison)
            except RuntimeError:
                got = None
            src.check(not poison.touched, "keyed record consulted the available-partition list", n=n)
            if got is None:
                continue
            gi = (got - 1000) // 7
            src.check(isinstance(got, int) and 0 <= gi < n and allp[gi] == got,
                      "result is not an element of all_partitions")
            # (h & 0x7fffffff) mod n, in integer arithmetic (toPositive(murmur2) % numPartitions)
            ref_idx = (h % (2 ** 30 if src.twin else 2 ** 31)) % n
            src.check(ref_idx == gi,
                      "keyed partition != all_partitions[(murmur2 & 0x7fffffff) mod n]", n=n)
    finally:
        P.murmur2 = saved


class _Rnd:
    def __init__(self, src):
        self.src = src
        self.n = 0

    def choice(self, seq):
        self.n += 1
        seq = list(seq)
        return seq[self.src.choice(f"rnd{self.n}", len(seq))]


def k2b_unkeyed(src, n):
    """key None: result in `available` when non-empty, else in all partitions."""
    saved = P.random
    P.random = _Rnd(src)
    try:
        allp = list(range(n))
        mask = src.choice("avail_mask", 1 << n)
        avail = [p for p in allp if mask >> p & 1]
        got = DefaultPartitioner()(None, allp, avail)
        if avail and not src.twin:
            src.check(got in avail, "unkeyed record sent to an unavailable partition while one is available",
                      avail=avail, got=got)
        else:
            src.check(got in allp and (not src.twin or got not in avail), "unkeyed record partition not in all_partitions")
    finally:
        P.random = saved


def k3_producer_partition(src, n):
    """AIOKafkaProducer._partition hands the partitioner the serialized key, the partition list in
    ascending id order, and the available list; explicit partition wins."""
    import asyncio
    from aiokafka.cluster import ClusterMetadata
    from aiokafka.producer.producer import AIOKafkaProducer
    from aiokafka.protocol.metadata import MetadataResponse_v1

    order = src.choice("arrival_order", 3)
    ids = list(range(n))
    if order == 1:
        ids = ids[::-1]
    elif order == 2:
        ids = ids[1::2] + ids[0::2]
    # partition id without leader, or none (every id for small topics, boundary ids for large ones)
    down = src.choice("leaderless", n + 1) if n <= 64 else [n, 0, 1, n // 2, n - 1][src.choice("leaderless", 5)]
    parts = [(0, p, (-1 if p == down else 0), [0], [0]) for p in ids]
    md = MetadataResponse_v1([(0, "h", 9092, None)], 0, [(0, "t", False, parts)])
    cluster = ClusterMetadata()
    cluster.update_metadata(md)
    seen = {}

    def part(key, allp, avail):
        seen["key"], seen["all"], seen["avail"] = key, list(allp), list(avail)
        return allp[0]

    from .common import in_loop
    # a real, unstarted producer (its constructor runs); its cluster metadata is the object fed here
    prod = in_loop(lambda: AIOKafkaProducer(bootstrap_servers="h:9092", partitioner=part))
    prod._metadata.update_metadata(md)
    cluster = prod._metadata
    prod._partition("t", None, "k", None, b"serialized-k", None)
    src.check(seen.get("key") == b"serialized-k", "partitioner did not receive the serialized key")
    want = sorted(range(n), reverse=src.twin and n > 1) if not (src.twin and n == 1) else [1]
    src.check(seen.get("all") == want,
              "partition list handed to the partitioner is not sorted by partition id",
              got=seen.get("all"))
    src.check(sorted(seen.get("avail", [])) == [p for p in range(n) if p != down],
              "available list is not the set of partitions with a leader")
    explicit = src.choice("explicit", n) if n <= 64 else [0, 1, n // 2, n - 2, n - 1][src.choice("explicit", 5)]
    r = prod._partition("t", explicit, "k", None, b"x", None)
    src.check(r == explicit, "explicit partition not honoured")
    # the topic's partition count changes (metadata update): the very next record sees the new list
    n2 = max(1, n + [1, -1, 3][src.choice("partition_count_changes_by", 3)])
    md2 = MetadataResponse_v1([(0, "h", 9092, None)], 0, [(0, "t", False, [(0, p, 0, [0], [0]) for p in range(n2)])])
    cluster.update_metadata(md2)
    seen.clear()
    prod._partition("t", None, "k", None, b"serialized-k", None)
    src.check(seen.get("all") == list(range(n2)),
              "after the topic's partition count changed the partitioner is still handed the old partition list",
              got=seen.get("all"), partitions_now=n2)


def harnesses(tier):
    q = tier == "quick"
    lens = list(range(0, 65)) if q else list(range(0, 257)) + [511, 512, 513, 1023, 1024, 1027, 2049, 4093, 4094, 4095, 4096]
    hs = []
    # one harness per chunk of lengths keeps paths independent and parallel
    chunk = 8 if q else 16
    groups = [lens[i:i + chunk] for i in range(0, len(lens), chunk)]
    for gi, g in enumerate(groups):
        hs.append(Harness(
            name=f"K1_murmur2_len_{g[0]}_{g[-1]}", fn=k1_murmur2, params={"lengths": g},
            functions=[murmur2], shape="K",
            symbolic_vars=f"every byte of the key (8-bit vectors) for each length in {g[0]}..{g[-1]}",
            bounds={"key_lengths": [g[0], g[-1]], "values": "all 256^n byte strings of each length"},
            note="real murmur2 executed on symbolic bytes; compared bit for bit with an int32 transcription of Java Utils.murmur2",
            twin_max_paths=5, parallel=False, solver_timeout_ms=8000, max_seconds=25, max_paths=400))
    for n in (range(0, 8) if q else range(0, 12)):
        hs.append(Harness(name=f"K1b_high_bit_patterns_len{n}", fn=k1b_high_bit_patterns, params={"length": n},
                          functions=[murmur2], shape="K",
                          symbolic_vars="finite-domain choices: each of the last 4..7 bytes of the key from {00, 7f, 80, ff}",
                          bounds={"length": n}, note="concrete keys (exhaustive over the pattern space); complements the symbolic K1",
                          twin_max_paths=20))
    counts = list(range(1, 65)) if q else list(range(1, 1001))
    cg = [counts[i:i + (16 if q else 50)] for i in range(0, len(counts), (16 if q else 50))]
    for g in cg:
        hs.append(Harness(
            name=f"K2_partitioner_n_{g[0]}_{g[-1]}", fn=k2_partitioner, params={"counts": g},
            functions=[DefaultPartitioner.__call__], shape="K",
            symbolic_vars="murmur2 output as an arbitrary uint32 (contract from K1)",
            bounds={"partition_counts": [g[0], g[-1]], "hash": "all 2^32 values"},
            stubs=["murmur2 replaced by a fresh symbolic uint32 (decided separately by K1)",
                   "available list is a poisoned object"],
            twin_max_paths=50, max_seconds=300))
    for n in ([1, 2, 3, 4] if q else [1, 2, 3, 4, 5, 6]):
        hs.append(Harness(
            name=f"K2b_unkeyed_n{n}", fn=k2b_unkeyed, params={"n": n},
            functions=[DefaultPartitioner.__call__], shape="K",
            symbolic_vars="availability subset (choice), random.choice result (choice)",
            bounds={"partitions": n, "availability": "every subset"},
            stubs=["random.choice returns any element (choice)"], twin_max_paths=64))
    for n in ([1, 2, 5, 16, 64] if q else [1, 2, 3, 5, 8, 16, 33, 64, 100, 257, 1000]):
        hs.append(Harness(
            name=f"K3_producer_partition_n{n}", fn=k3_producer_partition, params={"n": n},
            functions=[__import__("aiokafka.producer.producer", fromlist=["x"]).AIOKafkaProducer._partition],
            shape="U", symbolic_vars="metadata arrival order (3 orders), leaderless partition, explicit partition (choices)",
            bounds={"partitions": n}, twin_max_paths=40, max_paths=100000,
            note="finite check (stated as such in DESIGN C17-K3): list(set_of_ids) relies on CPython set order"))
    return hs
