#!/bin/bash
# offline: overlay venv on /venv with the solver wheels from the local wheelhouse
set -e
HERE="$(cd "$(dirname "$0")" && pwd)"
if [ ! -x "$HERE/.venv/bin/python" ]; then
  /venv/bin/python -m venv "$HERE/.venv"
fi
SP="$HERE/.venv/lib/python3.12/site-packages"
echo "import site; site.addsitedir('/venv/lib/python3.12/site-packages'); site.addsitedir('/repo')" > "$SP/verif.pth"
PIP_NO_INDEX=1 "$HERE/.venv/bin/pip" install -q --no-index --find-links /opt/veriftools/wheels z3-solver cvc5 crosshair-tool
"$HERE/.venv/bin/python" -c "import z3, aiokafka; print('ok', z3.get_version_string())"
